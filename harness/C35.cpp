// C35 — refine and simplify preserve value under their assumptions
#include "vrecipe.h"
#include "vmono.h"
#include <symengine/refine.h>
#include <symengine/simplify.h>
#include <symengine/assumptions.h>
#include <symengine/sets.h>
using namespace vr;

// value of (x^k)^n on the principal branch for real x, as |x|^(k n) * e^(i pi phase): phase in units of pi, modulo 2.
// x > 0: phase 0.  x < 0: x^k = |x|^k e^{i pi k'} with k' = k reduced into (-1, 1]; then ^n multiplies the phase by n.
struct Q {
    long n, d;
};
static Q qred(Q q)
{
    long a = q.n < 0 ? -q.n : q.n, b = q.d;
    while (b) {
        long t = a % b;
        a = b;
        b = t;
    }
    if (a == 0)
        a = 1;
    return {q.n / a, q.d / a};
}
static Q qmul(Q a, Q b) { return qred({a.n * b.n, a.d * b.d}); }
static Q wrap(Q p) // into (-1, 1]
{
    p = qred(p);
    while (p.n > p.d)
        p.n -= 2 * p.d;
    while (p.n <= -p.d)
        p.n += 2 * p.d;
    return p;
}
// magnitude exponent and phase of a refined result of the forms x^e, abs(x)^e, (x^a)^b
static bool shape_of(const Basic &r, bool xneg, Q &mag, Q &phase)
{
    auto numq = [](const Basic &b, Q &q) {
        if (is_a<Integer>(b)) {
            q = {mp_get_si(down_cast<const Integer &>(b).as_integer_class()), 1};
            return true;
        }
        if (is_a<Rational>(b)) {
            const rational_class &c = down_cast<const Rational &>(b).as_rational_class();
            q = {mp_get_si(get_num(c)), mp_get_si(get_den(c))};
            return true;
        }
        return false;
    };
    if (is_a<Symbol>(r)) {
        mag = {1, 1};
        phase = xneg ? Q{1, 1} : Q{0, 1};
        return true;
    }
    if (is_a<Abs>(r)) {
        mag = {1, 1};
        phase = {0, 1};
        return true;
    }
    if (is_a<Pow>(r)) {
        vec_basic a = r.get_args();
        Q e, m, p;
        if (!numq(*a[1], e) || !shape_of(*a[0], xneg, m, p))
            return false;
        mag = qmul(m, e);
        phase = wrap(qmul(wrap(p), e));
        return true;
    }
    if (is_a<Integer>(r) && eq(r, *one)) {
        mag = {0, 1};
        phase = {0, 1};
        return true;
    }
    return false;
}
extern "C" void harness_c35_pow()
{
    static const long QN[][2] = {{2, 1}, {3, 1}, {1, 2}, {1, 3}, {2, 3}, {-1, 1}, {-2, 1}, {3, 2}, {4, 1}, {1, 4}};
    unsigned ki = (unsigned)verif_choice("k", 10), ni = (unsigned)verif_choice("n", 10);
    RCP<const Basic> x = symbol("x");
    auto qn = [](const long *q) { return q[1] == 1 ? (RCP<const Basic>)integer(q[0]) : (RCP<const Basic>)Rational::from_two_ints(q[0], q[1]); };
    RCP<const Basic> e = pow(pow(x, qn(QN[ki])), qn(QN[ni]));
    int assume_kind = (int)verif_choice("assume", 3); // 0: x real, 1: x positive, 2: x negative
    set_basic st;
    st.insert(contains(x, reals()));
    if (assume_kind == 1)
        st.insert(Gt(x, zero));
    if (assume_kind == 2)
        st.insert(Lt(x, zero));
    Assumptions as(st);
    RCP<const Basic> r = refine(e, &as);
    // compare magnitude exponent and phase of e and r for x > 0 and for x < 0 (as far as the assumptions allow)
    for (int xneg = 0; xneg <= 1; xneg++) {
        if ((assume_kind == 1 && xneg) || (assume_kind == 2 && !xneg))
            continue;
        Q m1, p1, m2, p2;
        bool ok1 = shape_of(*e, xneg, m1, p1), ok2 = shape_of(*r, xneg, m2, p2);
        verif_assert(ok1 && ok2, "refined power keeps the form of a power of x or abs(x)");
        if (ok1 && ok2) {
            verif_assert(m1.n * m2.d == m2.n * m1.d, "refine keeps the magnitude exponent");
            verif_assert(wrap(p1).n * wrap(p2).d == wrap(p2).n * wrap(p1).d, "refine keeps the phase (principal branch) of a power of a real symbol");
        }
    }
    VERIF_END();
}
// abs, sign, floor, ceiling, max, min, log under sign assumptions: value comparison over the reals
extern "C" void harness_c35_functions()
{
    RCP<const Basic> x = symbol("x"), y = symbol("y");
    ve::Env env;
    env.val["x"] = verif_real("x");
    env.val["y"] = verif_real("y");
    double xv = env.val["x"], yv = env.val["y"];
    int assume_kind = (int)verif_choice("assume", 4); // x: real, positive, negative, nonnegative
    set_basic st;
    st.insert(contains(x, reals()));
    st.insert(contains(y, reals()));
    if (assume_kind == 1) {
        st.insert(Gt(x, zero));
        verif_assume(xv > 0);
    } else if (assume_kind == 2) {
        st.insert(Lt(x, zero));
        verif_assume(xv < 0);
    } else if (assume_kind == 3) {
        st.insert(Ge(x, zero));
        verif_assume(xv >= 0);
    }
    Assumptions as(st);
    long c = (long)verif_choice("c", 4) + 1;
    RCP<const Basic> e;
    switch (verif_choice("k", 8)) {
        case 0: e = abs(x); break;
        case 1: e = sign(x); break;
        case 2: e = abs(mul(integer(-c), x)); break;
        case 3: e = max({x, zero, y}); break;
        case 4: e = min({x, zero}); break;
        case 5: e = add(abs(x), sign(mul(x, integer(c)))); break;
        case 6: e = mul(abs(x), abs(y)); break;
        default: e = conjugate(add(x, y)); break;
    }
    RCP<const Basic> r = refine(e, &as), s = simplify(e, &as);
    try {
        verif_assert_req(ve::ev(*r, env), ve::ev(*e, env), "refine(e, A) has the value of e wherever A holds");
        verif_assert_req(ve::ev(*s, env), ve::ev(*e, env), "simplify(e, A) has the value of e wherever A holds");
    } catch (ve::Unsupported &) {
        verif_assert(false, "oracle cannot interpret a node of the result");
    }
    VERIF_END();
}
