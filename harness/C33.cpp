// C33 — the prime sieve yields exactly the primes after any call history
#include "vsym.h"
#include <symengine/prime_sieve.h>
using namespace vs;

static bool is_prime_ref(unsigned n)
{
    if (n < 2)
        return false;
    for (unsigned d = 2; d * d <= n; d++)
        if (n % d == 0)
            return false;
    return true;
}
static const unsigned LIMS[] = {1, 2, 29, 30, 31, 37, 38, 45, 46, 47, 61, 62, 63, 64, 77, 78, 79, 95, 101, 120};
static unsigned pick_limit(const std::string &name, unsigned nl)
{
    return LIMS[verif_choice(name.c_str(), nl)];
}
static void op_generate(const std::string &tag, unsigned nl)
{
    unsigned L = pick_limit(tag + "_L", nl);
    std::vector<unsigned> primes;
    Sieve::generate_primes(primes, L);
    unsigned idx = 0;
    for (unsigned n = 2; n <= L; n++)
        if (is_prime_ref(n)) {
            verif_assert(idx < primes.size() && primes[idx] == n, "generate_primes returns exactly the primes up to the limit, in order");
            idx++;
        }
    verif_assert(idx == primes.size(), "generate_primes returns nothing beyond the primes up to the limit");
}
static void op_iterate(const std::string &tag, unsigned nl)
{
    unsigned L = pick_limit(tag + "_L", nl);
    unsigned k = 1 + (unsigned)verif_choice((tag + "_k").c_str(), 3) * 7; // 1, 8 or 15 primes
    bool limited = verif_choice((tag + "_lim").c_str(), 2);
    unsigned expect = 2;
    {
        Sieve::iterator it = limited ? Sieve::iterator(L) : Sieve::iterator();
        for (unsigned i = 0; i < k; i++) {
            unsigned p = it.next_prime();
            if (limited && expect > L) {
                verif_assert(p > L, "a limited iterator signals exhaustion with a value above its limit");
                break;
            }
            verif_assert(p == expect, "iterator yields consecutive primes without gaps or repeats");
            expect++;
            while (!is_prime_ref(expect))
                expect++;
        }
    }
}
extern "C" void harness_c33()
{
    unsigned nops = (unsigned)verif_param("nops", 2), nl = (unsigned)verif_param("nlims", 20);
    // segment size in bits: small values so that segment boundaries fall inside the limit range (the public unit is 8192 bits)
    static const unsigned SEG[] = {4, 8, 16};
    Sieve::_sieve_size = SEG[verif_choice("segment", 3)];
    Sieve::set_clear(verif_choice("clear0", 2));
    for (unsigned i = 0; i < nops; i++) {
        std::string tag = "op" + std::to_string(i);
        switch (verif_choice(tag.c_str(), 4)) {
            case 0:
                op_generate(tag, nl);
                break;
            case 1:
                op_iterate(tag, nl);
                break;
            case 2:
                Sieve::clear();
                break;
            default:
                Sieve::set_clear(verif_choice((tag + "_b").c_str(), 2));
        }
    }
    // whatever happened before, a final generate_primes must be exact
    op_generate("final", nl);
    VERIF_END();
}
