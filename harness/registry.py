# registry of checks: property id -> harness entries, bounds, anchors (see bin/vcheck)
COMMON_ASSUMPTIONS = [
    "clang++-14 -O1 bitcode of /repo's sources has the semantics of the user's g++ -O2 build (counterexamples are replayed on a native build of the same bitcode)",
    "environment models (engine/natives_*.inc, engine/models/models.cpp): GMP is exact Z/Q; libstdc++ red-black tree modelled as an unbalanced BST with identical iteration order; operator new never fails",
    "z3 5.1 verdicts (unsat = no input inside the bounds violates the assertion on that path)",
]

CHECKS = {}

CHECKS["C01"] = dict(
    src="C01.cpp", level="model_checking",
    entries=[
        dict(name="harness_c01_pairs", quick={}, thorough={}),
        dict(name="harness_c01_cross", quick={}, thorough={}),
    ],
    anchors=["SymEngine::RealDouble::__hash__", "SymEngine::Integer::__hash__", "SymEngine::Rational::__hash__", "SymEngine::Add::__hash__", "SymEngine::Mul::__hash__",
             "SymEngine::Basic::hash", "SymEngine::MSymEnginePoly"],
    bounds="22 expression templates (all number kinds, Symbol, Mul, Add in two construction orders, Pow, Sin, FiniteSet, Interval, Lt, UIntPoly, URatPoly, MIntPoly over {x,y} and constant MIntPoly over a symbolic variable set, ImmutableDenseMatrix); integer slots in [-3,3] (bit-vector mode), rational denominators 1..3 (unnormalised inputs through from_two_ints), doubles: all 2^64 bit patterns; all same-template pairs and all cross-template pairs",
    outside=["expressions with more than 3 operators", "multi-limb integers", "slot values beyond [-3,3]"],
)
