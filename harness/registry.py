# registry of checks: property id -> harness entries, bounds, anchors (see bin/vcheck)
COMMON_ASSUMPTIONS = [
    "clang++-14 -O1 bitcode of /repo's sources has the semantics of the user's g++ -O2 build (counterexamples are replayed on a native build of the same bitcode)",
    "environment models (engine/natives_*.inc, engine/models/models.cpp): GMP is exact Z/Q; libstdc++ red-black tree modelled as an unbalanced BST with identical iteration order; operator new never fails",
    "z3 5.1 verdicts (unsat = no input inside the bounds violates the assertion on that path)",
]

CHECKS = {}

CHECKS["C01"] = dict(
    src="C01.cpp", level="model_checking",
    entries=[
        dict(name="harness_c01_pairs", quick={}, thorough={}),
        dict(name="harness_c01_cross", quick={}, thorough={"allpairs": 1, "_wall": 1700}),
    ],
    anchors=["SymEngine::RealDouble::__hash__", "SymEngine::Integer::__hash__", "SymEngine::Rational::__hash__", "SymEngine::Add::__hash__", "SymEngine::Mul::__hash__",
             "SymEngine::MSymEnginePoly"],
    bounds="25 expression templates (all number kinds, Interval with an infinite end, x + k and k*x with k of any finite number kind, Symbol, Mul, Add in two construction orders, Pow, Sin, FiniteSet, Interval, Lt, UIntPoly, URatPoly, MIntPoly over {x,y} and constant MIntPoly over a symbolic variable set, ImmutableDenseMatrix); integer slots in [-3,3] (bit-vector mode), rational denominators 1..3 (unnormalised inputs through from_two_ints), doubles: all 2^64 bit patterns; all same-template pairs; cross-template pairs: the 16 pairs that can produce objects of the same class (quick), all pairs (thorough)",
    outside=["expressions with more than 3 operators", "multi-limb integers", "slot values beyond [-3,3]"],
)

CHECKS["C02"] = dict(
    src="C02.cpp", level="model_checking",
    entries=[
        dict(name="harness_c02_pairs", quick={"_opts": ["--fast-ms", "1000", "--slow-ms", "120000"]}, thorough={"gauss_rat": 1}),
        dict(name="harness_c02_triples", quick={"thi": 10, "skipmask": (1 << 1) | (1 << 2) | (1 << 4)}, thorough={}),
        dict(name="harness_c02_numtriples", quick={}, thorough={}, thorough_only=True),
        dict(name="harness_c02_setorder", quick={"tlo": 0, "thi": 9, "skipmask": (1 << 1) | (1 << 2) | (1 << 4)}, thorough={}),
    ],
    anchors=["SymEngine::Basic::__cmp__", "SymEngine::RealDouble::compare", "SymEngine::Integer::compare", "SymEngine::Add::compare", "SymEngine::Mul::compare", "SymEngine::RCPBasicKeyLess"],
    bounds="same universe as C01 (22 templates, integer slots [-3,3], all double bit patterns); all same-template pairs plus all 7x7 number-kind pairs; same-template triples; std::set insertion orders of 3 elements",
    outside=["mixed-template triples beyond number kinds (quick tier)", "expressions with more than 3 operators"],
)

CHECKS["C29"] = dict(
    src="C29.cpp", level="model_checking",
    entries=[
        dict(name="harness_c29_pairs", quick={}, thorough={"nmax": 40}),
        dict(name="harness_c29_subs", quick={}, thorough={"nmax": 40}),
        dict(name="harness_c29_steps", quick={"nmax": 3, "tie_side": 1}, thorough={"nmax": 40}),
    ],
    anchors=["SymEngine::Le(", "SymEngine::Lt(", "SymEngine::Eq(", "SymEngine::Ne(", "SymEngine::Ge(", "SymEngine::Gt("],
    bounds="ordered pairs over {Integer |v|<=6 (40), Rational n/d |n|<=6 (40), d in {1,2,4} (and 3 against exact numbers), RealDouble: every non-NaN bit pattern incl. +-0, +-inf, +-oo}; the numeric relation is computed by an independent exact comparison in the harness",
    outside=["NaN doubles (no numeric order)", "complex numbers", "multi-limb integers", "rationals with denominator 3 against doubles (conversion rounds)", "IEEE +-inf doubles against the symbolic infinities"],
)

CHECKS["C09"] = dict(
    src="C09.cpp", level="model_checking",
    entries=[
        dict(name="harness_c09_value", quick={"B": 1, "kmax": 3}, thorough={"B": 3, "kmax": 4, "_wall": 2400}),
        dict(name="harness_c09_identity", quick={"B": 2}, thorough={"B": 4}),
        dict(name="harness_c09_multinomial", quick={"kn": 2}, thorough={"kn": 3}),
    ],
    anchors=["SymEngine::ExpandVisitor", "SymEngine::expand("],
    bounds="6 shapes: (c0+c1 x+c2 y)^k k<=3 (4), products of two/three linear forms incl. an opaque f(x) atom, k*(l1*l2)+l3^2, (l1*l2)^-2, rational coefficients; integer coefficient slots |c|<=1 (3) symbolic (exact Z), x, y, f(x) arbitrary reals; identity decision for (ax+b)(cx+d) vs e2 x^2+e1 x+e0; multinomial path: every sum of >= 2 terms from {x, z, x*z, y*z, x*y, y} to the power 3..4 (thorough 3..5): value at all real x, y, z, expandedness, and agreement with the stepwise expansion",
    outside=["more than 3 factors", "exponents above 4", "non-polynomial atoms other than one opaque function application"],
    assumptions=["value oracle D2 (vlib/veval.h): Add/Mul/Pow node meaning over the reals"],
)

CHECKS["C05"] = dict(
    src="C05.cpp", level="model_checking",
    entries=[
        dict(name="harness_c05_binop", quick={"kinds": 3, "gmax": 8, "gdmax": 2, "nmax_mul": 100, "dmax": 3, "divmax": 10, "gdivmax": 2}, thorough={"gmax": 30, "gdmax": 3, "nmax_mul": 1000, "dmax": 4, "divmax": 20, "gdivmax": 3}),
        dict(name="harness_c05_pow", quick={"kmax": 3, "pmax": 4, "gmax": 2, "gdmax": 2}, thorough={"kmax": 4, "pmax": 12, "gmax": 5, "gdmax": 2}),
        dict(name="harness_c05_api", quick={"apimax": 20}, thorough={"apimax": 300}),
    ],
    anchors=["SymEngine::Rational::from_mpq", "SymEngine::Rational::from_two_ints", "SymEngine::Complex::from_mpq", "SymEngine::Integer::divint", "SymEngine::Integer::pow_negint"],
    bounds="all 3x3 kind pairs x {add,sub,mul,div}: integers and rational numerators |n|<=2e9 for add/sub, <=1000 (30000) for mul/div, symbolic unnormalised denominators 1..3 (6) through from_two_ints; Gaussian rationals |n|<=12 (40), d<=2 (3); integer exponents -3..3 (5) on bases |n|<=10 (30); exact Z arithmetic (z3 Int)",
    outside=["multi-limb symbolic operands (GMP itself is assumed exact)"],
    assumptions=["oracle = cross-multiplied fractions computed with GMP calls made directly by the harness"],
)

CHECKS["C06"] = dict(
    src="C06.cpp", level="model_checking",
    entries=[
        dict(name="harness_c06_number", quick={"nmax": 4, "dbl_table": 1}, thorough={"nmax": 30}),
        dict(name="harness_c06_api", quick={"nmax": 4, "dbl_table": 1}, thorough={"nmax": 30}),
    ],
    anchors=["SymEngine::Infty::add", "SymEngine::Infty::mul", "SymEngine::NaN::add", "SymEngine::NaN::mul", "SymEngine::RealDouble::add", "SymEngine::Integer::add", "SymEngine::Rational::add", "SymEngine::Complex::add"],
    bounds="all 7x7 ordered kind pairs (Integer, Rational, Gaussian rational, RealDouble, ComplexDouble, {+oo,-oo,zoo}, nan); integer payloads |v|<=4 (30) in bit-vector mode, rational denominators 1..3, doubles: quick tier 8 representative values per component (their exact partners then come from the table {-2,-1,0,1,3}, denominators 1..3); exact-exact and exact-infinity pairs symbolic in both tiers; {0,-0,1,-2.5,1e300,inf,-inf,nan} (the property's finite pair table), thorough tier all 2^64 bit patterns per component; Number::add/mul/sub/div and add()/mul()",
    outside=["pow between kinds", "multi-limb integers"],
)

CHECKS["C25"] = dict(
    src="C25.cpp", level="model_checking",
    entries=[
        dict(name="harness_c25_set", quick={"R": 2, "C": 3}, thorough={"R": 3, "C": 3}),
        dict(name="harness_c25_coo", quick={"ntrip": 3}, thorough={"ntrip": 5}),
        dict(name="harness_c25_ops", quick={}, thorough={}),
    ],
    anchors=["SymEngine::CSRMatrix::set", "SymEngine::CSRMatrix::get", "SymEngine::CSRMatrix::from_coo", "SymEngine::CSRMatrix::csr_sum_duplicates", "SymEngine::CSRMatrix::transpose", "SymEngine::csr_matmat_pass2", "SymEngine::csr_binop_csr_canonical"],
    bounds="inductive step from an ARBITRARY canonical CSR state of shape 2x3 (3x3): symbolic row lengths and column indices, distinct symbols as values; two successive set(i,j,e) with symbolic i,j and zero/non-zero e; from_coo with 3 (5) triplets with symbolic (possibly duplicate) coordinates; transpose, csr_binop_csr_canonical(add), elementwise product, 2x2 matrix product (csr_matmat_pass1/2 + csr_sort_indices), csr_scale_rows/columns, csr_diagonal, eq",
    outside=["shapes above 3x3", "conjugate, jacobian", "CSRMatrix::add_matrix/mul_matrix/mul_scalar/submatrix/LU... which throw NotImplementedError by design"],
)

CHECKS["C46"] = dict(
    src="C46.cpp", level="model_checking",
    entries=[dict(name="harness_c46", quick={"shapes": 3, "B": 2, "K": 4}, thorough={"shapes": 4, "B": 3, "K": 6}, thorough_ok=True)],
    anchors=["SymEngine::homogeneous_lde"],
    bounds="A in Z^{p x q}, (p,q) in {(1,2),(1,3),(2,3)} (thorough adds (2,4)), entries |a|<=2 (3) symbolic; completeness checked against every x in [0,4]^q ([0,6]^q) with x symbolic (one solver query per path)",
    outside=["solutions with a coordinate above K (Pottier bound (1+max|a| q)^p may exceed K)", "larger matrices"],
)

CHECKS["C21"] = dict(
    src="C21.cpp", level="model_checking",
    entries=[
        dict(name="harness_c21_mul", quick={"nmax": 2, "B": 7, "nonneg": 1}, thorough={"nmax": 3, "B": 15, "nonneg": 0}),
        dict(name="harness_c21_mul_edge", quick={"nmin": 3, "nmax": 3, "B": 7, "lo": 6}, thorough={"nmin": 3, "nmax": 4, "B": 15, "lo": 13}),
        dict(name="harness_c21_linear", quick={"B": 1000}, thorough={"B": 1000000}),
        dict(name="harness_c21_pow_div", quick={"B": 1, "kmax": 3, "enum2": 1}, thorough={"B": 3, "_wall": 2400}),
        dict(name="harness_c21_pow_high", quick={"B": 2, "nk": 3, "enum2": 1}, thorough={"B": 3, "nk": 5, "enum2": 1}),
        dict(name="harness_c21_divides", quick={"B": 1, "enum2": 1}, thorough={"B": 2, "_wall": 2400}),
        dict(name="harness_c21_convert", quick={"B": 1, "enum2": 1}, thorough={"B": 4, "_wall": 2400}),
        dict(name="harness_c21_urat", quick={"B": 4}, thorough={"B": 10}),
    ],
    anchors=["SymEngine::UIntDict::mul", "SymEngine::UIntDict::eval_bit", "SymEngine::divides_upoly", "SymEngine::pow_upoly", "SymEngine::URatPoly"],
    bounds="UIntPoly: all length pairs up to 3x3 terms with symbolic coefficients 0<=c<=7 (quick; thorough: -15..15 all signs and zeros) against the schoolbook convolution (Kronecker substitution is executed symbolically); 3x3-term products with all coefficients symbolic in [6,7] (thorough: 3..4 terms in [13,15]), the digit-width boundary of the substitution; add/sub/neg/eval/diff/eq on 3-term polynomials |c|<=1000; pow up to 2 (thorough 3), powers 7, 6, 5 (thorough also 11, 13) of a0 + a1 x with |a|<=2 (3) (coefficients enumerated as paths), and exact division (p*q)/q on 2-term polynomials with coefficients |c|<=1 (3), exact division by 3-term divisors |c|<=1 (2) incl. cancelling products (quick tier: the second operand and the leading coefficient are enumerated as paths, the first operand is symbolic); from_basic/as_symbolic round trip; URatPoly products and sums with denominators 1..3",
    outside=["more than 3 terms", "UExprPoly", "multi-limb coefficients"],
)

CHECKS["C33"] = dict(
    src="C33.cpp", level="model_checking",
    entries=[dict(name="harness_c33", quick={"nops": 1, "nlims": 20}, thorough={"nops": 2, "nlims": 20}, thorough_ok=True)],
    anchors=["SymEngine::Sieve::_extend", "SymEngine::Sieve::generate_primes", "SymEngine::Sieve::iterator::next_prime", "SymEngine::Sieve::clear"],
    bounds="call histories of 1 (thorough 2) operations from {generate_primes(L), iterator(L or unlimited) + 1/8/15 next_prime, clear, set_clear(b)} followed by a final generate_primes(L'); L from 20 boundary-biased limits <= 120; segment size set through the private static to 4, 8 or 16 bits so that segment boundaries fall inside the limit range; initial set_clear flag both ways; every memory access checked by the engine",
    outside=["limits above 120", "the public segment unit of 8192 bits (needs limits above 16384)"],
    technique="bounded symbolic execution of LLVM IR of the real code (choices enumerated as paths, memory monitors) + SMT for the choice structure",
)

CHECKS["C23"] = dict(
    src="C23.cpp", level="model_checking",
    entries=[
        dict(name="harness_c23_ring", quick={"nprimes": 3, "nmax": 3}, thorough={"nprimes": 5, "nmax": 4}),
        dict(name="harness_c23_div", quick={"nprimes": 2, "nmax": 3}, thorough={"nprimes": 4, "nmax": 4}),
        dict(name="harness_c23_factor", quick={"nprimes": 3, "fmax": 2, "max_random": 3}, thorough={"nprimes": 4, "fmax": 2, "max_random": 5, "_wall": 2400}),
        dict(name="harness_c23_factor_deg4", quick={"nprimes": 1, "fmax": 4, "max_random": 3}, thorough={"nprimes": 2, "fmax": 4, "max_random": 4, "_wall": 2400}),
        dict(name="harness_c23_factor_deg3", quick={"nprimes": 2, "fmax": 3, "max_random": 3}, thorough={"nprimes": 3, "fmax": 3, "max_random": 4, "_wall": 2400}),
    ],
    anchors=["SymEngine::GaloisFieldDict::gf_div", "SymEngine::GaloisFieldDict::mul", "SymEngine::GaloisFieldDict::gf_gcd", "SymEngine::GaloisFieldDict::gf_factor", "SymEngine::GaloisFieldDict::gf_monic"],
    bounds="p in {2,3,5} (thorough adds 7, 11), coefficient vectors of length <= 3 (4) with symbolic entries in [0,p); ring operations, division with remainder, gcd, monic, powers <= 3, evaluation at a symbolic point, derivative; factorisation of polynomials of degree <= 2 over p <= 5 (7) of degree 3 over p <= 3 (5) and of degree 4 over p = 2 (3): product of factors, square-free decomposition with multiplicities, monic, irreducible (no root, degree <= 3); mp_urandomm returns a symbolic value so the randomised algorithms are checked for every random choice, with at most 3 (6) random draws per run (runs needing more draws are outside the claim)",
    outside=["degree above 3", "primes above 11", "gf_compose_mod, gf_trace_map, lcm"],
)

CHECKS["C32"] = dict(
    src="C32.cpp", level="model_checking",
    entries=[
        dict(name="harness_c32_gcd", quick={"B": 10}, thorough={"B": 30}),
        dict(name="harness_c32_divmod", quick={"B": 1000}, thorough={"B": 1000000}),
        dict(name="harness_c32_modular", quick={"M": 18}, thorough={"M": 40}),
        dict(name="harness_c32_crt", quick={}, thorough={}),
        dict(name="harness_c32_multiplicative", quick={"N": 24}, thorough={"N": 60}),
        dict(name="harness_c32_symbols", quick={"N": 9}, thorough={"N": 35}),
        dict(name="harness_c32_sequences", quick={"nseq": 30}, thorough={"nseq": 90}),
        dict(name="harness_c32_binomial", quick={}, thorough={}),
        dict(name="harness_c32_primes", quick={"vmax": 200}, thorough={"vmax": 1000}),
    ],
    anchors=["SymEngine::gcd_ext", "SymEngine::quotient_mod_f", "SymEngine::mod_inverse", "SymEngine::crt", "SymEngine::nthroot_mod_list", "SymEngine::totient", "SymEngine::carmichael", "SymEngine::primitive_root", "SymEngine::jacobi", "SymEngine::kronecker", "SymEngine::fibonacci", "SymEngine::binomial", "SymEngine::nextprime", "SymEngine::mobius"],
    bounds="gcd/lcm/gcd_ext |a|,|b|<=10 (30) with a symbolic common-divisor candidate; quotient/mod both conventions |n|<=1000 (1e6) symbolic, 0<|d|<=12; mod_inverse, nthroot_mod(_list) (n<=4), is_nth_residue for m<=18 (40); crt with two moduli <=9; totient, carmichael, mobius, prime factors, multiplicative_order, primitive_root for n<=24 (60); Legendre/Jacobi/Kronecker, quadratic residues for n<=15 (35); Fibonacci/Lucas/factorial recurrences n<=31 (91), Pascal's rule for tops -6..20 and k<=8 incl. negative tops, nextprime/probab_prime_p up to 200 (1000); definitions evaluated by brute force in the harness",
    outside=["bernoulli, harmonic, factor_* heuristics (pollard, lehman), polygonal numbers, perfect-power decomposition, primepi, primorial, mertens", "large arguments"],
)

CHECKS["C24"] = dict(
    src="C24.cpp", level="model_checking",
    entries=[
        dict(name="harness_c24_det_inv", quick={"n": 2, "B": 1, "nsym": 4}, thorough={"n": 3, "B": 2, "nsym": 3, "_wall": 1700}),
        dict(name="harness_c24_factor", quick={"n": 2, "B": 2, "nsym": 4}, thorough={"n": 3, "B": 2, "nsym": 3, "_wall": 1700}),
        dict(name="harness_c24_rank", quick={"B": 1}, thorough={"B": 2}),
        dict(name="harness_c24_pivot3", quick={"B": 1}, thorough={"B": 2, "_wall": 2400}),
    ],
    anchors=["SymEngine::det_bareis", "SymEngine::det_berkowitz", "SymEngine::inverse_fraction_free_LU", "SymEngine::inverse_gauss_jordan", "SymEngine::pivoted_LU", "SymEngine::fraction_free_LDU", "SymEngine::reduced_row_echelon_form", "SymEngine::LDL"],
    bounds="quick: 2x2 matrices with 4 symbolic integer entries |a|<=2; thorough: 3x3 with 3 symbolic entries |a|<=2 and 6 entries enumerated from {0,1,-1,2}; determinants (bareis, berkowitz, det) against Leibniz, 4 inverse algorithms (A*B==I both ways), 3 solvers with symbolic right-hand sides, pivoted LU (P A == L U), LU, fraction-free LDU, LDL on symmetric inputs, transpose, sums; rank and rref of 2x3 matrices |a|<=1 (2) against minors; 3x3 systems [[1,a,b],[1,a,c],[d,e,f]] with b, c and the right-hand side symbolic, a, d, e, f enumerated, |.|<=1 (2), whose second pivot vanishes (row exchange after the first elimination step): Gauss-Jordan solve, pivoted LU solve, Gauss-Jordan inverse",
    outside=["QR and Cholesky (radical entries)", "characteristic polynomial", "Gaussian-rational entries", "sizes above 3x3"],
)

CHECKS["C10"] = dict(
    src="C10.cpp", level="model_checking",
    entries=[
        dict(name="harness_c10_diff", quick={"depth": 1}, thorough={"depth": 2, "_wall": 1700}),
        dict(name="harness_c10_chain", quick={}, thorough={}),
        dict(name="harness_c10_linear", quick={"symB": 3}, thorough={"symB": 6}),
    ],
    anchors=["SymEngine::DiffVisitor", "SymEngine::Basic::diff"],
    bounds="all operator trees of depth <= 1 (thorough 2) over leaves {x, y, positive p, numbers 2, -1/2, 3, a symbolic integer in [-3,3]}, unary {neg, integer powers 2,3,-1,-2, rational powers of p (1/2,-1/2,2/3,5/4), sin, cos, tan, exp, log, sinh, cosh, tanh, atan}, binary {+,-,*,/}; derivative with respect to x, y or p compared with forward-mode dual numbers for all real x, y and positive p (elementary functions uninterpreted with Pythagoras/exp axioms); cache on/off; absent symbol; chain rule for an undefined f(g(x)); linear combinations c1*f(x) + c2*g(x) + y and c1*f(x) + c2*x*g(x) + y with symbolic integer c1, c2 in [-3,3] (6) and f, g from {tan, tanh, cot, sin, exp, log, atan, cube}",
    outside=["points of non-differentiability / singularities (pruned)", "polynomial classes, Derivative-of-Derivative, special functions beyond those listed"],
    assumptions=["oracle D2 (vlib/veval.h, vlib/vrecipe.h): node meanings over the reals; real-valued abstraction of floating point"],
)

CHECKS["C11"] = dict(
    src="C11.cpp", level="model_checking",
    entries=[dict(name="harness_c11_subs", quick={"depth": 1}, thorough={"depth": 2, "_wall": 1700})],
    anchors=["SymEngine::SubsVisitor", "SymEngine::XReplaceVisitor", "SymEngine::msubs", "SymEngine::ssubs"],
    bounds="all operator trees of depth <= 1 (thorough 2) over {x, y, positive p, numbers, a symbolic integer}; replacement of x by a symbolic integer, y, y+1 or 2y^2; value compared for all real y and positive p; cache on/off; absent key; identity map; xreplace/msubs/ssubs agree; simultaneous swap {x:y, y:x}",
    outside=["keys that are sub-expressions (not symbols)", "Derivative/Subs objects"],
    assumptions=["oracle D2 (vlib/veval.h, vlib/vrecipe.h)"],
)

CHECKS["C07"] = dict(
    src="C07.cpp", level="model_checking",
    entries=[
        dict(name="harness_c07_trees", quick={"depth": 1}, thorough={"depth": 2, "_wall": 1700}, thorough_ok=True),
        dict(name="harness_c07_powers", quick={"B": 16, "cmax": 8, "nexp": 7}, thorough={"B": 400, "cmax": 100}, thorough_ok=True),
    ],
    anchors=["SymEngine::pow(", "SymEngine::Mul::power_num", "SymEngine::Mul::dict_add_term_new", "SymEngine::Rational::powrat", "SymEngine::Integer::pow"],
    bounds="arithmetic trees of depth <= 1 (2) over {x, y, positive p, numbers 2,-1/2,3,-4, a symbolic integer} with neg, integer powers (2,3,-1,-2,0), rational powers of p, sqrt, + - * /; power rewrites (c p^a q^b)^e with c = n/d (n<=20 (100) symbolic, d<=3), p^a p^b q^a, (p^a)^e, (n/d)^e p^a (perfect-power extraction, n<=40 (400)), p^a/p^b (1/p)^a (pq)^b with exponents from a table of 12 rationals: exact comparison of prime/symbol exponent vectors, valid for all positive p, q",
    outside=["negative and complex bases under non-integer powers (principal-branch phase)", "floating point numbers inside radicals", "pi, E, I as operands"],
    assumptions=["oracle D2 with 12th roots of positive quantities (vlib/veval.h)", "oracle D3: exponent vectors over primes and positive symbols (vlib/vmono.h)"],
)

CHECKS["C12"] = dict(
    src="C12.cpp", level="model_checking",
    entries=[dict(name="harness_c12_eval", quick={"depth": 1}, thorough={"depth": 2, "_wall": 1700})],
    anchors=["SymEngine::eval_double", "SymEngine::eval_double_single_dispatch", "SymEngine::eval_double_visitor_pattern", "SymEngine::evalf"],
    bounds="operator trees of depth <= 1 (2) over {2, -1/2, 3, 7/3, a symbolic integer in [-3,3]} with neg, integer powers, sin, cos, tan, cot, log, sinh, cosh, tanh, atan, asin, erf and + - * /; the three evaluators and evalf(53 bits) compared with the node meaning over the reals (floating-point operations executed as real arithmetic, libm calls as uninterpreted symbols)",
    outside=["floating-point rounding error and overflow (not decided by this technique)", "eval_complex_double", "node types beyond those listed"],
    assumptions=["real abstraction D6 of floating-point code", "oracle D2 (vlib/veval.h)"],
)

CHECKS["C13"] = dict(
    src="C13.cpp", level="model_checking",
    entries=[
        dict(name="harness_c13_lambda", quick={"depth": 1, "udepth": 0, "cse2flip": 1}, thorough={"depth": 2, "udepth": 1, "_wall": 1700}),
        dict(name="harness_c13_logic", quick={}, thorough={}),
    ],
    anchors=["SymEngine::LambdaDoubleVisitor<double>::init", "SymEngine::LambdaDoubleVisitor<double>::bvisit", "SymEngine::LambdaRealDoubleVisitor"],
    bounds="three outputs (e1, e1+e2 sharing a subterm, e1*(e1+1)) with e1 a tree of depth <= 1 (thorough: 2) and e2 of depth 0 (thorough: <= 1) over {x, y, 2, -1/2, 3} and elementary functions; cse on/off; re-initialisation with swapped inputs and another cse setting; for all real input vectors (x, y); relationals, And/Or, Piecewise, max/min, sign, abs, Contains(x, Interval) with all open/closed flag combinations (alone and as a Piecewise condition) for all real x, y",
    outside=["rounding error", "floor/ceiling", "LambdaComplexDoubleVisitor"],
    assumptions=["real abstraction D6 of floating-point code", "oracle D2 (vlib/vrecipe.h)"],
)

CHECKS["C18"] = dict(
    src="C18.cpp", level="model_checking",
    entries=[
        dict(name="harness_c18_bytes", quick={"len": 1, "_wall": 200}, thorough={"len": 2, "_wall": 1700}),
        dict(name="harness_c18_alphabet", quick={"len": 2}, thorough={"len": 3, "_wall": 1700}),
        dict(name="harness_c18_seeded", quick={}, thorough={}),
        dict(name="harness_c18_sbml", quick={"len": 1}, thorough={"len": 2, "_wall": 1700}),
    ],
    anchors=["SymEngine::Tokenizer::lex", "SymEngine::Parser::parse", "yy::parser::parse", "SymEngine::Parser::parse_identifier"],
    bounds="every byte string of length 1 (thorough 2) with fully symbolic non-NUL bytes through parse and parse_sbml; every string of length 2 (3) over a 44-character class alphabet (one representative per tokenizer class plus operator/keyword characters and two non-ASCII bytes); 11 grammar seeds with one fully symbolic byte at each of 6 positions; parser reuse after a (failed) parse vs a fresh parser; all memory accesses checked, outcome must be a value or a SymEngineException",
    outside=["inputs longer than 3 bytes beyond the seeded family", "hangs beyond the instruction budget are reported as inconclusive"],
)

CHECKS["C17"] = dict(
    src="C17.cpp", level="model_checking",
    entries=[
        dict(name="harness_c17_integers", quick={"maxdigits": 3}, thorough={"maxdigits": 4}),
        dict(name="harness_c17_floats", quick={}, thorough={}, thorough_only=True),
        dict(name="harness_c17_syntax", quick={}, thorough={}),
        dict(name="harness_c17_functions", quick={}, thorough={}),
    ],
    anchors=["SymEngine::Parser::parse_numeric", "SymEngine::Tokenizer::lex", "yy::parser::parse", "SymEngine::Parser::functionify"],
    bounds="integer literals of 1..3 (4) digits, every digit value (leading zeros included); float literals ii.ff, ii.ffe[+-]x, iie[+-]x compared with strtod (thorough); a op1 b op2 c for all 25 operator pairs over 5 atom kinds (symbol, number 0..12, implicit product 3x, function call) with whitespace variations; unary minus against ** and *; ^ as power; 25 one-argument function names, atan2, max, constants",
    outside=["strings longer than three operands", "relational/logical syntax (C18 exercises it for safety only)"],
)

CHECKS["C16"] = dict(
    src="C16.cpp", level="model_checking",
    entries=[
        dict(name="harness_c16_roundtrip", quick={"depth": 1, "symB": 12}, thorough={"depth": 2, "symB": 30, "_wall": 1700}),
        dict(name="harness_c16_numbers", quick={"B": 12}, thorough={"B": 120}),
    ],
    anchors=["SymEngine::StrPrinter", "SymEngine::Parser::parse", "SymEngine::Basic::__str__"],
    bounds="operator trees of depth <= 1 (2) over {x, y, 2, -1/2, -3, 7/3, 0, 1, a symbolic integer |c|<=12 (30), pi} with neg, powers 2,-1,-3, sin, cos, exp, log, sqrt, atan, + - * /: parse(str(e)) == e and equal values built in another order print identically; rational n/d (|n|<=12 (120), d<=4), Gaussian rational coefficients, rational powers, nested powers, a relational and a conjunction",
    outside=["floating point numbers (15 significant digits)", "unusual symbol names", "expressions of more than 3 operators"],
)

CHECKS["C44"] = dict(
    src="C44.cpp", level="model_checking",
    entries=[
        dict(name="harness_c44_printers", quick={"depth": 1}, thorough={"depth": 2, "_wall": 1700}),
        dict(name="harness_c44_sbml", quick={"depth": 1}, thorough={"depth": 2, "_wall": 1700}),
    ],
    anchors=["SymEngine::LatexPrinter", "SymEngine::MathMLPrinter", "SymEngine::UnicodePrinter", "SymEngine::JuliaStrPrinter", "SymEngine::SbmlPrinter", "SymEngine::parse_sbml"],
    bounds="operator trees of depth <= 1 (2) over {x, y, numbers, a symbolic integer, pi} and 11 unary functions: latex, mathml, unicode and julia printers return; LaTeX braces and \\left/\\right balanced; MathML tag stack well-formed; Julia parentheses balanced; parse_sbml(sbml(e)) == e on the SBML fragment",
    outside=["sets, matrices, piecewise and relational printing", "unicode box geometry"],
)

CHECKS["C04"] = dict(
    src="C04.cpp", level="model_checking",
    entries=[
        dict(name="harness_c04_add_mul", quick={"B": 1, "kinds": 10}, thorough={"B": 3, "kinds": 11, "_wall": 2400}),
        dict(name="harness_c04_maxmin_logic", quick={"B": 2}, thorough={"B": 5}),
    ],
    anchors=["SymEngine::Add::dict_add_term", "SymEngine::Add::from_dict", "SymEngine::Mul::dict_add_term_new", "SymEngine::Mul::from_dict", "SymEngine::add(", "SymEngine::mul("],
    bounds="all triples (a,b,c) from 10 (thorough 11) operand shapes (integer, rational, symbol, c*x, x**c, x**(c/2), c*y**2, sin x, Gaussian number, x*y; thorough also 2**(c/3)) over two shared symbolic integer slots |c|<=1 (3): all 6 orders x 2 bracketings of + and *, the n-ary add/mul; max/min/And/Or over mixed numeric and symbolic arguments",
    outside=["more than three operands", "floating point operands (order-dependence of float addition is not a canonical-form question)"],
)

CHECKS["C39"] = dict(
    src="C39.cpp", level="model_checking",
    entries=[
        dict(name="harness_c39_symbols", quick={"depth": 1, "symB": 1}, thorough={"depth": 2, "symB": 2, "_wall": 2400}, thorough_ok=True),
        dict(name="harness_c39_coeff", quick={"B": 2}, thorough={"B": 6}, thorough_ok=True),
    ],
    anchors=["SymEngine::free_symbols", "SymEngine::has_symbol", "SymEngine::function_symbols", "SymEngine::coeff"],
    bounds="operator trees of depth <= 1 (2) over {x, y, p, 2, -1/2, 0, 1, a symbolic integer |c|<=1 (2)} (slots that become 0 or 1 and cancelling terms make symbols disappear): free_symbols/has_symbol against an independent walk of the result tree, f(e), function_symbols; coeff(p,x,n) for p = a x^2 + b y x + c + y with symbolic a,b,c reconstructs p; single-term products k*x**n*y with a symbolic integer or half-integer k and n <= 3",
    outside=["Derivative/Subs/sets/Piecewise binding rules", "atoms()"],
)

CHECKS["C37"] = dict(
    src="C37.cpp", level="model_checking",
    entries=[dict(name="harness_c37_cse", quick={"depth": 1, "symnum": 0}, thorough={"depth": 2, "symnum": 1, "_wall": 2400})],
    anchors=["SymEngine::cse", "SymEngine::tree_cse", "SymEngine::opt_cse"],
    bounds="four outputs sin(s)+s*u, (s+u)*cos(s), (s+u+x)^2, s+u+y sharing a subtree s (operator tree of depth <= 1 (2)), a sub-sum s+u and products, u of depth <= 1 (thorough tier: with symbolic integer leaves): fresh replacement symbols, ordering of replacements, back-substitution reproduces every input",
    outside=["more than four outputs", "matrices"],
)

CHECKS["C03"] = dict(
    src="C03.cpp", level="model_checking", cfg="assert",
    entries=[
        dict(name="harness_c03_functions", quick={"B": 2}, thorough={"B": 5}),
        dict(name="harness_c03_powers", quick={"B": 2}, thorough={"B": 5}),
        dict(name="harness_c07_trees", src="C07.cpp", quick={"depth": 1}, thorough={"depth": 2, "_wall": 1700}),
        dict(name="harness_c09_value", src="C09.cpp", quick={"B": 2, "kmax": 3}, thorough={"B": 4, "kmax": 4}, thorough_only=True),
        dict(name="harness_c10_diff", src="C10.cpp", quick={"depth": 1}, thorough={"depth": 2, "_wall": 1700}),
        dict(name="harness_c11_subs", src="C11.cpp", quick={"depth": 1}, thorough={"depth": 2, "_wall": 1700}, thorough_only=True),
        dict(name="harness_c04_add_mul", src="C04.cpp", quick={"B": 1}, thorough={"B": 3, "_wall": 1700}, thorough_only=True),
    ],
    anchors=["SymEngine::Add::is_canonical", "SymEngine::Add::is_canonical", "SymEngine::Mul::is_canonical", "SymEngine::Pow::is_canonical", "SymEngine::Sign::is_canonical"],
    bounds="assertion configuration (every SYMENGINE_ASSERT redirected to the engine, 11 000 sites): 24 one-argument function constructors on 8 argument shapes (integer, rational, Gaussian, n/d*pi, x+n/d*pi, n*x, -x, complex*x) with symbolic n |n|<=2 (5); radical products, nested powers, sqrt(x^2)^2; plus the C07 tree, C10 diff (and in the thorough tier C09, C11, C04) harnesses re-run under assertions; independent structural validator of the documented invariants on every result",
    outside=["series, solve, parsing and deserialisation results", "API call sequences longer than three operations"],
)

CHECKS["C27"] = dict(
    src="C27.cpp", level="model_checking",
    entries=[
        dict(name="harness_c27_binary", quick={"B": 1}, thorough={"B": 3, "_wall": 1700}),
        dict(name="harness_c27_ternary", quick={"B": 1}, thorough={"B": 2, "_wall": 1700}, thorough_only=True),
        dict(name="harness_c27_nested", quick={"B": 1}, thorough={"B": 2}),
        dict(name="harness_c27_topology", quick={"B": 1}, thorough={"B": 3}),
    ],
    anchors=["SymEngine::Interval::set_union", "SymEngine::Interval::set_intersection", "SymEngine::set_union", "SymEngine::set_intersection", "SymEngine::set_complement", "SymEngine::Interval::contains", "SymEngine::FiniteSet::contains", "SymEngine::closure", "SymEngine::interior", "SymEngine::boundary"],
    bounds="operands: intervals with symbolic integer end points |e|<=1 (3) and all open/closed flags, half-lines to -oo/+oo, finite sets of two symbolic integers, empty set, reals, rationals, integers, naturals, naturals0, universal set; operations on unevaluated Intersection / Complement results (nested entry); all ordered pairs (triples in the thorough tier) under union, intersection, complement (free functions and member functions); the test point is a symbolic half-integer covering end points and gaps; membership in the result by an independent structural walker and by contains(); closure/interior/boundary of a union of two intervals",
    outside=["rational end points with other denominators", "ImageSet, ConditionSet", "sup/inf"],
)

CHECKS["C28"] = dict(
    src="C28.cpp", level="model_checking",
    entries=[
        dict(name="harness_c28_connectives", quick={"B": 1, "bkinds": 5, "ckinds": 0, "nonneg": 1}, thorough={"B": 1, "_wall": 2400}),
        dict(name="harness_c28_piecewise", quick={"B": 1, "bkinds": 5}, thorough={"B": 2, "_wall": 2400}),
    ],
    anchors=["SymEngine::and_or", "SymEngine::logical_not", "SymEngine::logical_xor", "SymEngine::piecewise", "SymEngine::Contains"],
    bounds="formulas over three atoms from {x<c, x<=c, Eq, Ne, x>c, Contains(x, Interval), Contains(x, FiniteSet)} with symbolic integer constants |c|<=1 (quick tier: constants in {0,1}, test point in {-1/2..3/2}; the second atom is a relational, the third is x<0): And, Or, Not, Xor, Nand, Nor, Xnor of 2-3 atoms and three nested shapes; truth compared at a symbolic half-integer value of x; piecewise with two symbolic conditions",
    outside=["opaque boolean symbols as atoms", "atoms on two different symbols"],
)

CHECKS["C38"] = dict(
    src="C38.cpp", level="model_checking",
    entries=[dict(name="harness_c38", quick={"npoints": 3, "maxd": 2, "X": 5, "B": 1}, thorough={"npoints": 4, "maxd": 3, "X": 100000, "B": 9, "halves": 1, "_wall": 1700}),
             dict(name="harness_c38_ratcentre", quick={"npoints": 3, "maxd": 2, "X": 3, "B": 1, "cden": 2, "sorted": 1}, thorough={"npoints": 3, "maxd": 2, "X": 6, "B": 2, "cden": 3, "halves": 1})],
    anchors=["SymEngine::generate_fdiff_weights_vector"],
    bounds="grids of 3 (4) distinct points from {-2..2} (thorough: also the half-integer grids), every grid enumerated; centre x0 a symbolic integer |x0|<=5 (1e5) and test polynomial of degree < grid size with symbolic integer coefficients |a|<=1 (9): sum_j w_kj p(g_j) == p^(k)(x0) exactly for k <= 2 (3); second entry: centre a symbolic rational n/d, |n|<=3 (6), 1<=d<=2 (3), not in lowest terms, over the increasing (thorough: all ordered) 3-point grids, expected derivative computed in exact rational arithmetic",
    outside=["symbolic (Symbol) grid points", "rational centres with denominators above 3", "grids of more than 4 points"],
)

CHECKS["C30"] = dict(
    src="C30.cpp", level="model_checking",
    entries=[
        dict(name="harness_c30_poly", quick={"B": 3, "maxdeg": 2}, thorough={"B": 8, "maxdeg": 2}),
        dict(name="harness_c30_linsolve", quick={"B": 2}, thorough={"B": 4}),
        dict(name="harness_c30_factored", quick={"B": 2}, thorough={"B": 3}),
    ],
    anchors=["SymEngine::solve(", "SymEngine::solve_poly_linear", "SymEngine::solve_poly_quadratic", "SymEngine::solve_poly_cubic", "SymEngine::solve_poly_quartic", "SymEngine::linsolve"],
    bounds="linear and quadratic equations c2 x^2 + c1 x + c0 with c1, c2 enumerated in [-3,3] ([-8,8]), c2 != 0, and a symbolic constant term |c0|<=9 (64): every returned element is a root (substituted and expanded exactly, radicals included), the number of solutions matches the discriminant, Vieta's sum; 2x2 linear systems with symbolic integer entries |a|<=2 (4), non-singular; cubics and quartics lead*(x-r1)...(x-rn) for all root tuples |r|<=2 (3), lead in {1,2} (enumerated as paths): rational elements of the result are roots, and when the result is all rational it contains every root",
    outside=["cubic and quartic results left as unsimplified radicals", "solve_trig", "rational coefficients", "singular linear systems"],
)

CHECKS["C31"] = dict(
    src="C31.cpp", level="model_checking",
    entries=[dict(name="harness_c31", quick={"order": 4, "B": 1}, thorough={"order": 7, "B": 5, "_wall": 1700}, thorough_ok=True)],
    anchors=["SymEngine::series(", "SymEngine::UnivariateSeries", "SymEngine::SeriesBase"],
    bounds="f(c1 x + c2 x^2) for f in {exp, log(1+.), sin/cos, tan, atan, sinh/cosh, 1/(1+.), sqrt(1+.), (1+.)^3 exp} with c1 a symbolic integer |c1|<=1 (5) and c2 from {0,1,-2,3}, order 4 (7): the returned coefficients satisfy the defining differential/functional equation of each function as exact coefficient identities (exact rational arithmetic)",
    outside=["asin, lambertw, series reversion", "rational inner coefficients", "orders above 7"],
)

CHECKS["C22"] = dict(
    src="C22.cpp", level="model_checking",
    entries=[dict(name="harness_c22", quick={"B": 2, "V": 2, "nterms": 1, "nsets": 5, "emax": 1}, thorough={"B": 3, "V": 3, "nterms": 2, "nsets": 8, "emax": 2, "_wall": 1700}),
             dict(name="harness_c22_varorder", quick={"B": 2, "V": 2}, thorough={"B": 3, "V": 3})],
    anchors=["SymEngine::reconcile", "SymEngine::MIntPoly::eval", "SymEngine::add_mpoly", "SymEngine::mul_mpoly", "SymEngine::MIntPoly::as_symbolic"],
    bounds="from_dict with the three variables listed in each of the 6 orders, two terms with exponents 0..2 and symbolic coefficients, evaluated at a symbolic integer point; two MIntPoly operands, each over a subset of {x,y,z} (quick: 5 subsets {}, {x}, {y}, {x,y}, {x,y,z}; thorough: all 8; every ordered pair: equal, overlapping, disjoint, empty), 1 (2) terms with exponents 0..1 (0..2) and symbolic integer coefficients |c|<=2 (4); add, sub, mul, neg, square; evaluation homomorphism at a symbolic integer point |v|<=2 (3); as_symbolic/from_basic round trip",
    outside=["MExprPoly", "exponents above 2", "more than 3 variables"],
)

CHECKS["C36"] = dict(
    src="C36.cpp", level="model_checking",
    entries=[
        dict(name="harness_c36_numer_denom", quick={"depth": 1}, thorough={"depth": 2, "_wall": 1700}),
        dict(name="harness_c36_real_imag", quick={"B": 2}, thorough={"B": 5}),
    ],
    anchors=["SymEngine::as_numer_denom", "SymEngine::NumerDenomVisitor", "SymEngine::as_real_imag", "SymEngine::RealImagVisitor", "SymEngine::conjugate"],
    bounds="as_numer_denom on operator trees of depth <= 1 (2) over {x, y, positive p, 2, -1/2, 3/4, -5/3, a symbolic integer} with neg, integer powers 2,-1,-2,3, rational powers of p and + - * /: n == e*d for all real x, y and positive p, no negative top-level exponents; as_real_imag on seven shapes in w = sqrt(2) + I sqrt(3), a symbolic Gaussian integer z and a symbolic integer c (products, powers 2, 3, -1, -2) -- as_real_imag rejects symbols by design; conjugate of a Gaussian integer",
    outside=["rewrite_as_exp/sin/cos, expand_as_exp, trig_to_sqrt (need complex exponential identities that the uninterpreted-function oracle cannot decide)", "as_real_imag of functions"],
    assumptions=["oracle D2 (vlib/veval.h) and a pairwise complex evaluator in the harness"],
)

CHECKS["C35"] = dict(
    src="C35.cpp", level="model_checking",
    entries=[
        dict(name="harness_c35_pow", quick={}, thorough={}, thorough_ok=True),
        dict(name="harness_c35_functions", quick={}, thorough={}, thorough_ok=True),
    ],
    anchors=["SymEngine::RefineVisitor::bvisit(SymEngine::Pow", "SymEngine::refine", "SymEngine::simplify"],
    bounds="refine((x**k)**n) for k, n from a table of 10 rationals under {x real, x positive, x negative}: magnitude exponent and principal-branch phase (exact rational arithmetic modulo 2) of input and output for x > 0 and x < 0; refine and simplify of abs, sign, max, min, conjugate shapes under sign assumptions compared over all real x, y satisfying them",
    outside=["log and floor/ceiling rules", "complex symbols", "csc(x)**-1 style simplifications"],
    assumptions=["oracle D3 (phase arithmetic in the harness) and D2 (vlib/veval.h)"],
)

CHECKS["C34"] = dict(
    src="C34.cpp", level="model_checking",
    entries=[dict(name="harness_c34", quick={}, thorough={}, thorough_ok=True), dict(name="harness_c34_real", quick={}, thorough={}, thorough_ok=True)],
    anchors=["SymEngine::is_zero", "SymEngine::is_positive", "SymEngine::is_negative", "SymEngine::is_nonnegative", "SymEngine::is_integer", "SymEngine::is_real", "SymEngine::Assumptions"],
    bounds="12 expression shapes over x, y (sums, products, squares, cubes, abs, affine forms with a constant -2..2) under every combination of {real, integer} x {no sign information, > 0, < 0, >= 0, <= 0, != 0} per symbol; every definite answer of is_zero, is_nonzero, is_positive, is_negative, is_nonnegative, is_nonpositive, is_real, is_integer is checked against the value at ALL real (or integer) x, y satisfying the assumptions; is_real of sqrt(u), u**(3/2), sqrt(u) + y for 9 radicands u (x, x+c, x*y, x**2, |x|, x**2+y**2, -x**2, c*x, |x|+c) against the sign of u",
    outside=["is_rational/is_irrational/is_algebraic/is_transcendental/is_finite/is_even/is_odd/is_polynomial", "rational-valued symbols", "transcendental functions"],
    assumptions=["oracle D2/D4 (vlib/veval.h) over the reals and integers"],
)

CHECKS["C40"] = dict(
    src="C40.cpp", level="model_checking",
    entries=[dict(name="harness_c40_workload", quick={"steps": 1, "leak": 1}, thorough={"steps": 2, "leak": 1, "_wall": 2400})],
    anchors=["SymEngine::Add::", "SymEngine::parse", "SymEngine::DenseMatrix::det", "SymEngine::expand(", "SymEngine::UIntPoly"],
    bounds="API programs of 1 (thorough 2) steps over a pool {x, y, symbolic Integer in [-2,2], symbolic Rational n/2}, each step one of 16 operations (add, mul, pow, div, sin, exp, diff, expand, subs, print+parse, polynomial conversion, 2x2 det/inverse, set union/intersection, solve_poly, series, function-symbol derivative + subs) on any two pool members, results printed, hashed and fed to the next step; also the exceptional exits; every memory access checked (bounds, use-after-free, double/invalid free) and all heap objects of the workload freed or reachable from a global at exit",
    outside=["uninitialised-read detection (the engine tracks definedness only for whole objects)", "serialization, LLVM, threads", "programs longer than 2 steps", "signed-overflow and shift UB are checked only where the harnesses of the other properties assert values"],
    technique="bounded symbolic execution of LLVM IR of the real code with memory-safety and leak monitors (engine-level assertions on every load/store/free) + SMT (z3)",
)

CHECKS["C42"] = dict(
    src="C42.cpp", level="model_checking",
    entries=[
        dict(name="harness_c42_binary", quick={"R": 2}, thorough={"R": 6}),
        dict(name="harness_c42_unary", quick={"R": 2}, thorough={"R": 6}),
        dict(name="harness_c42_strings", quick={}, thorough={}),
        dict(name="harness_c42_containers", quick={"steps": 2}, thorough={"steps": 4}),
        dict(name="harness_c42_ntheory", quick={}, thorough={}),
        dict(name="harness_c42_sets", quick={}, thorough={}),
        dict(name="harness_c42_lambda", quick={}, thorough={}),
    ],
    anchors=["basic_add", "basic_pow", "rational_set_si", "vecbasic_get", "setbasic_insert", "mapbasicbasic_get", "ntheory_mod", "basic_set_interval", "basic_set_union", "basic_parse", "integer_set_str", "lambda_real_double_visitor_init"],
    bounds="operands built through the C constructors (integer_set_si with a symbolic long in [-2,2] (thorough [-6,6]), rational_set_si with symbolic numerator in the same range and denominator in [-2,3] incl. 0 (for atan2, beta and pairs with a double operand the exact operands are enumerated as paths), symbol_set, real_double_set_d) for all 4x4 kind pairs x 8 binary operations and 31 unary functions, each compared with the C++ function (equal result, or an error code equal to the exception's code exactly when C++ throws); 15 strings through basic_parse and integer_set_str; histories of 2 (4) operations on CVecBasic / CSetBasic / CMapBasicBasic against std::vector / std::set / std::map models with symbolic indices inside the valid range; 9 ntheory functions with symbolic a in [-6,6], b in [-4,4] incl. zero divisors; the set constructors (interval with symbolic integer ends and both flags, finite sets, empty/universal/reals/rationals/integers/complexes) and union, intersection, complement, subset/superset, contains, sup, inf, closure, interior against the C++ set API; lambda_real_double_visitor_init on expressions the evaluator refuses; every C call is wrapped so that an escaping C++ exception is an assertion failure; Expression operators + - * / unary - == += *= against add/sub/mul/div/neg/eq",
    outside=["indices outside the valid range and handles of the wrong type (stated preconditions of the C API, SYMENGINE_ASSERT)", "matrix functions of the C API", "MPFR/MPC/LLVM entry points (not in this build)", "basic_dumps/basic_loads"],
)

CHECKS["C26"] = dict(
    src="C26.cpp", level="model_checking",
    entries=[
        dict(name="harness_c26_ops", quick={"B": 2}, thorough={"B": 3}),
        dict(name="harness_c26_trees", quick={"B": 1, "dense_mask": 1}, thorough={"B": 1, "dense_mask": 7, "_wall": 2400}),
    ],
    anchors=["SymEngine::matrix_add", "SymEngine::matrix_mul", "SymEngine::hadamard_product", "SymEngine::transpose", "SymEngine::trace", "SymEngine::is_zero(SymEngine::MatrixExpr", "SymEngine::is_symmetric", "SymEngine::is_toeplitz", "SymEngine::size("],
    bounds="leaves: dense r x c (r, c in {1,2}) with symbolic integer entries |e|<=2 (3), diagonal and identity of size 1..2, zero r x c; one operation from {matrix_add, matrix_mul, hadamard_product, transpose, conjugate_matrix, trace, scalar multiple matrix_mul({k, A}) with a symbolic integer k} incl. all dimension mismatches; trees (A op1 B) op2 C and C op2 (A op1 B) over 2x2 leaves |e|<=1 (quick: A dense/diagonal/identity/zero, B and C diagonal/identity/zero; thorough: all three may be dense), n-ary forms; every entry of the result against exact integer arithmetic in the harness; size(); definite answers of is_zero, is_square, is_real, is_toeplitz, is_diagonal, is_symmetric, is_lower, is_upper against the dense matrix",
    outside=["matrix symbols and symbolic dimensions (no concrete value to compare with)", "matrices larger than 2x2", "complex entries"],
)

CHECKS["C15"] = dict(
    src="C15.cpp", level="model_checking",
    entries=[
        dict(name="harness_c15_recipes", quick={"depth": 1}, thorough={"depth": 2, "_wall": 2400}),
        dict(name="harness_c15_logic", quick={}, thorough={}),
    ],
    anchors=["SymEngine::ccode", "SymEngine::CodePrinter::bvisit", "SymEngine::C89CodePrinter::_print_pow", "SymEngine::C99CodePrinter::_print_pow"],
    bounds="operator trees of depth <= 1 (thorough 2) over {x, y, positive p, 2, -1/2, 3, 2/3} with + - * /, integer powers {2,3,-1,-2}, rational powers {1/2,1/3,3/2,-1/2,2/3} of p, sqrt, sin, cos, tan, exp, log, sinh, cosh, tanh, atan, erf; 10 shapes with max/min, sign, abs, Piecewise (2 and 3 branches with relationals), pi, E, quotients; printers ccode, c89code, c99code at double precision; the emitted text is interpreted with C's precedence rules and integer/floating literal typing (so 1/3 would be 0) and evaluated for ALL real x, y and positive p",
    outside=["rounding error of double arithmetic and of libm (formula level, oracle D6)", "float / long double precision settings, CUDA / Metal / JavaScript printers", "the C compiler itself"],
    assumptions=["the interpreter of the C expression fragment in harness/C15.cpp implements C's grammar and usual arithmetic conversions for the constructs the printer emits", "oracle D2 (vlib/vrecipe.h)"],
)

CHECKS["C08"] = dict(
    src="C08.cpp", level="model_checking",
    entries=[
        dict(name="harness_c08_trig_shift", quick={"K": 5, "_opts": ["--fast-ms", "2000", "--slow-ms", "90000"]}, thorough={"K": 14, "_opts": ["--fast-ms", "2000", "--slow-ms", "120000"]}, thorough_ok=True),
        dict(name="harness_c08_trig_table", quick={"K": 26}, thorough={"K": 60}, thorough_ok=True),
        dict(name="harness_c08_inverse", quick={}, thorough={}, thorough_ok=True),
        dict(name="harness_c08_exact", quick={"B": 5}, thorough={"B": 12}, thorough_ok=True),
        dict(name="harness_c08_gamma", quick={"K": 5}, thorough={"K": 9}, thorough_ok=True),
        dict(name="harness_c08_special", quick={"pmax": 30}, thorough={"pmax": 60}, thorough_ok=True),
    ],
    anchors=["SymEngine::sin(", "SymEngine::trig_simplify", "SymEngine::get_pi_shift", "SymEngine::asin(", "SymEngine::floor(", "SymEngine::gamma(", "SymEngine::beta(", "SymEngine::zeta(", "SymEngine::primepi", "SymEngine::levi_civita"],
    bounds="sin, cos, tan, cot, sec, csc of +-x + k*pi/6 for a symbolic integer |k|<=5 (14) against the addition formulas at every real x; the special-angle table: sin/cos/tan/cot/sec/csc of k*pi/12 for symbolic |k|<=26 (60) must satisfy sin^2+cos^2=1, the double- and triple-angle relations, the quadrant signs and the pole positions (exact algebraic numbers, decided by nlsat); asin..acsc at 18 table values: f(finv(v))==v and principal ranges; floor/ceiling/truncate/abs/sign of symbolic rationals n/d |n|<=5 (12), d<=4, conjugate/abs of Gaussian integers, max/min of three exact numbers, kronecker_delta, levi_civita on {0,1,2}^3; gamma at k/2 |k|<=5 (9): poles, recurrence, gamma(1/2)^2==pi; beta(x,y)*gamma(x+y)==gamma(x)*gamma(y) incl. the pole cases; zeta(-n), zeta(2m), dirichlet_eta, erf/erfc parity, log(p/q), exp/lambertw special values, primepi/primorial up to 30 (60)",
    outside=["complex arguments away from Gaussian integers", "floating-point arguments (C12 covers numeric evaluation)", "polygamma, lowergamma/uppergamma, atan2 tables", "arguments that are rational multiples of pi with denominators other than 12's divisors"],
    assumptions=["oracle D2/D3 (vlib/veval.h): sin/cos/exp/log as uninterpreted functions with the textbook identities as instance axioms; radicals as real algebraic numbers"],
)

CHECKS["C19"] = dict(
    src="C19.cpp", level="model_checking",
    entries=[
        dict(name="harness_c19_universe", quick={}, thorough={"gauss_rat": 1}),
        dict(name="harness_c19_classes", quick={}, thorough={}),
        dict(name="harness_c19_matrix", quick={}, thorough={}),
    ],
    anchors=["SymEngine::RCPBasicAwareOutputArchive", "SymEngine::RCPBasicAwareInputArchive", "SymEngine::save_basic", "SymEngine::load_basic"],
    bounds="the 25 templates of the C01 universe (all number kinds with symbolic payloads: integers in [-3,3], rationals, Gaussian numbers, doubles over all 2^64 bit patterns, infinities, nan; Symbol, Mul, Add, Pow, Sin, FiniteSet, Interval, Lt, polynomials and matrices where serialisable) and 34 further class representatives with a symbolic integer slot (Dummy, constants, every one- and two-argument function class, max/min, FunctionSymbol, Derivative, Subs, relationals, And/Or/Not/Xor, Piecewise, Contains, Union, Complement, ImageSet, ConditionSet): loads(dumps(e)) == e with equal class and hash, doubles bit for bit, a twice-referenced subexpression restored as one object; DenseMatrix of 1..2 x 1..3 symbolic entries through the statements of DenseMatrix::dumps/loads",
    outside=["the std::ostringstream / std::istringstream plumbing of cereal (replaced by the memory-backed archives of vlib/vcereal.h with the same byte format)", "RealMPFR / ComplexMPC (not in this build)", "expressions with more than one symbolic slot per class representative"],
    assumptions=["vlib/vcereal.h reproduces the byte format of cereal::PortableBinary{Output,Input}Archive on a little-endian machine"],
)

CHECKS["C20"] = dict(
    src="C20.cpp", level="model_checking",
    entries=[
        dict(name="harness_c20_mutate", quick={"nmut": 1, "alloc_fail_throws": 1, "_opts": ["--alloc-cap", "1048576"]}, thorough={"nmut": 2, "nexpr": 6, "alloc_fail_throws": 1, "_wall": 2400, "_opts": ["--alloc-cap", "1048576"]}),
        dict(name="harness_c20_truncate", quick={"alloc_fail_throws": 1, "_opts": ["--alloc-cap", "1048576"]}, thorough={"alloc_fail_throws": 1, "_opts": ["--alloc-cap", "1048576"]}),
        dict(name="harness_c20_matrix", quick={"alloc_fail_throws": 1, "maxpos": 40, "_opts": ["--alloc-cap", "1048576"]}, thorough={"alloc_fail_throws": 1, "maxpos": 400, "_opts": ["--alloc-cap", "1048576"]}),
    ],
    anchors=["SymEngine::RCPBasicAwareInputArchive", "SymEngine::load_basic", "SymEngine::load_helper"],
    bounds="valid dumps of 14 expressions (Integer, Rational, Add, Mul/Pow, Sin, RealDouble, Complex, FunctionSymbol, Interval, FiniteSet, And of relationals, Piecewise, a sum with a shared subterm (back references), atan2) with one byte (thorough: two bytes, first six expressions) at every position replaced by a fully symbolic byte (all 256 values decided by the solver), every truncation of those dumps, and the DenseMatrix loader on a 2x2 dump with one symbolic byte in the first 40 (400) positions; loads must return an expression or throw a C++ exception, every load/store/free is checked by the executor, and a returned expression is printed, hashed, compared and its arguments visited",
    outside=["more than two mutated bytes", "the std::istream plumbing (memory-backed archive of vlib/vcereal.h instead)", "allocation requests above 1 MB are modelled as failing with std::bad_alloc", "evaluating a loaded expression numerically"],
    technique="bounded symbolic execution of LLVM IR of the real deserializer with symbolic input bytes and memory-safety monitors + SMT (z3)",
)
