# registry of checks: property id -> harness entries, bounds, anchors (see bin/vcheck)
COMMON_ASSUMPTIONS = [
    "clang++-14 -O1 bitcode of /repo's sources has the semantics of the user's g++ -O2 build (counterexamples are replayed on a native build of the same bitcode)",
    "environment models (engine/natives_*.inc, engine/models/models.cpp): GMP is exact Z/Q; libstdc++ red-black tree modelled as an unbalanced BST with identical iteration order; operator new never fails",
    "z3 5.1 verdicts (unsat = no input inside the bounds violates the assertion on that path)",
]

CHECKS = {}

CHECKS["C01"] = dict(
    src="C01.cpp", level="model_checking",
    entries=[
        dict(name="harness_c01_pairs", quick={}, thorough={}),
        dict(name="harness_c01_cross", quick={}, thorough={}),
    ],
    anchors=["SymEngine::RealDouble::__hash__", "SymEngine::Integer::__hash__", "SymEngine::Rational::__hash__", "SymEngine::Add::__hash__", "SymEngine::Mul::__hash__",
             "SymEngine::MSymEnginePoly"],
    bounds="22 expression templates (all number kinds, Symbol, Mul, Add in two construction orders, Pow, Sin, FiniteSet, Interval, Lt, UIntPoly, URatPoly, MIntPoly over {x,y} and constant MIntPoly over a symbolic variable set, ImmutableDenseMatrix); integer slots in [-3,3] (bit-vector mode), rational denominators 1..3 (unnormalised inputs through from_two_ints), doubles: all 2^64 bit patterns; all same-template pairs and all cross-template pairs",
    outside=["expressions with more than 3 operators", "multi-limb integers", "slot values beyond [-3,3]"],
)

CHECKS["C02"] = dict(
    src="C02.cpp", level="model_checking",
    entries=[
        dict(name="harness_c02_pairs", quick={}, thorough={"gauss_rat": 1}),
        dict(name="harness_c02_triples", quick={"thi": 14, "skipmask": (1 << 2) | (1 << 4)}, thorough={}),
        dict(name="harness_c02_numtriples", quick={}, thorough={}, thorough_only=True),
        dict(name="harness_c02_setorder", quick={"tlo": 0, "thi": 12, "skipmask": (1 << 1) | (1 << 2) | (1 << 4)}, thorough={}),
    ],
    anchors=["SymEngine::Basic::__cmp__", "SymEngine::RealDouble::compare", "SymEngine::Integer::compare", "SymEngine::Add::compare", "SymEngine::Mul::compare", "SymEngine::RCPBasicKeyLess"],
    bounds="same universe as C01 (22 templates, integer slots [-3,3], all double bit patterns); all same-template pairs plus all 7x7 number-kind pairs; same-template triples; std::set insertion orders of 3 elements",
    outside=["mixed-template triples beyond number kinds (quick tier)", "expressions with more than 3 operators"],
)

CHECKS["C29"] = dict(
    src="C29.cpp", level="model_checking",
    entries=[
        dict(name="harness_c29_pairs", quick={}, thorough={"nmax": 40}),
        dict(name="harness_c29_subs", quick={}, thorough={"nmax": 40}),
    ],
    anchors=["SymEngine::Le(", "SymEngine::Lt(", "SymEngine::Eq(", "SymEngine::Ne(", "SymEngine::Ge(", "SymEngine::Gt("],
    bounds="ordered pairs over {Integer |v|<=6 (40), Rational n/d |n|<=6 (40), d in {1,2,4} (and 3 against exact numbers), RealDouble: every non-NaN bit pattern incl. +-0, +-inf, +-oo}; the numeric relation is computed by an independent exact comparison in the harness",
    outside=["NaN doubles (no numeric order)", "complex numbers", "multi-limb integers", "rationals with denominator 3 against doubles (conversion rounds)", "IEEE +-inf doubles against the symbolic infinities"],
)

CHECKS["C09"] = dict(
    src="C09.cpp", level="model_checking",
    entries=[
        dict(name="harness_c09_value", quick={"B": 3, "kmax": 3}, thorough={"B": 6, "kmax": 4}),
        dict(name="harness_c09_identity", quick={"B": 2}, thorough={"B": 4}),
    ],
    anchors=["SymEngine::ExpandVisitor", "SymEngine::expand("],
    bounds="6 shapes: (c0+c1 x+c2 y)^k k<=3 (4), products of two/three linear forms incl. an opaque f(x) atom, k*(l1*l2)+l3^2, (l1*l2)^-2, rational coefficients; integer coefficient slots |c|<=3 (6) symbolic (exact Z), x, y, f(x) arbitrary reals; identity decision for (ax+b)(cx+d) vs e2 x^2+e1 x+e0",
    outside=["more than 3 factors", "exponents above 4", "non-polynomial atoms other than one opaque function application"],
    assumptions=["value oracle D2 (vlib/veval.h): Add/Mul/Pow node meaning over the reals"],
)
