// C20 — deserializing untrusted bytes is memory-safe: a valid dump with bytes replaced by solver variables.  The loader
// (serialize-cereal.h on the memory-backed archive of vlib/vcereal.h) either returns an expression or throws an exception; every
// memory access is checked by the executor; what it returns must be printable, hashable and comparable.
#include "vsym.h"
#include "vcereal.h"
#include <symengine/logic.h>
#include <symengine/sets.h>
#include <symengine/matrix.h>
using namespace vs;

static RCP<const Basic> base_expr(unsigned k)
{
    RCP<const Basic> x = symbol("x"), y = symbol("yy");
    switch (k) {
        case 0: return integer(-12);
        case 1: return Rational::from_two_ints(3, 7);
        case 2: return add(x, integer(2));
        case 3: return mul(integer(3), pow(x, y));
        case 4: return sin(x);
        case 5: return real_double(1.5);
        case 6: return Complex::from_two_nums(*integer(1), *integer(2));
        case 7: return function_symbol("f", {x, y});
        case 8: return interval(integer(0), integer(1), true, false);
        case 9: return finiteset({x, integer(1)});
        case 10: return logical_and({Lt(x, y), Ne(x, integer(0))});
        case 11: return piecewise({{x, Lt(x, y)}, {y, boolTrue}});
        case 12: return add(pow(add(x, integer(1)), integer(2)), sin(add(x, integer(1)))); // shared subterm: back references
        default: return atan2(x, y);
    }
}
static void use(const RCP<const Basic> &r)
{
    // whatever loads returns must be a usable expression
    if (!is_a<RealDouble>(*r) && !is_a<ComplexDouble>(*r)) // (the executor does not format symbolic doubles)
        (void)r->__str__();
    hash_t h = r->hash();
    if (!is_a<RealDouble>(*r) && !is_a<ComplexDouble>(*r)) // (a mutated double may be a NaN, which is not eq to itself: C02's known finding)
        verif_assert(eq(*r, *r) && r->__cmp__(*r) == 0, "a loaded expression equals itself");
    (void)h;
    vec_basic a = r->get_args();
    for (auto &c : a)
        (void)c->hash();
}
extern "C" void harness_c20_mutate()
{
    unsigned k = (unsigned)verif_choice("k", verif_param("nexpr", 14));
    std::vector<char> bytes = vser::dumps(base_expr(k));
    unsigned nmut = (unsigned)verif_param("nmut", 1);
    // positions: one path per position (skipping the object addresses, which are opaque keys)
    for (unsigned m = 0; m < nmut; m++) {
        size_t pos = (size_t)verif_choice(("pos" + std::to_string(m)).c_str(), bytes.size());
        unsigned char b;
        verif_bytes(&b, 1, ("byte" + std::to_string(m)).c_str());
        bytes[pos] = (char)b;
    }
    RCP<const Basic> r;
    bool threw = false;
    try {
        r = vser::loads(bytes);
    } catch (std::exception &) {
        threw = true; // SerializationError, cereal::Exception, SymEngineException, std::bad_alloc, std::length_error, ...
    }
    if (!threw) {
        verif_assert(!r.is_null(), "loads returns an expression or throws");
        try {
            use(r);
        } catch (SymEngineException &) {
        }
    }
    VERIF_END();
}
// truncated dumps
extern "C" void harness_c20_truncate()
{
    unsigned k = (unsigned)verif_choice("k", 14);
    std::vector<char> bytes = vser::dumps(base_expr(k));
    size_t n = (size_t)verif_choice("len", bytes.size());
    bytes.resize(n);
    try {
        RCP<const Basic> r = vser::loads(bytes);
        verif_assert(!r.is_null(), "loads returns an expression or throws");
        use(r);
    } catch (std::exception &) {
    }
    VERIF_END();
}
// matrices: the statements of DenseMatrix::loads on mutated bytes, then the loaded matrix is used
extern "C" void harness_c20_matrix()
{
    RCP<const Basic> x = symbol("x");
    DenseMatrix M(2, 2, {integer(1), x, add(x, integer(1)), integer(4)});
    cereal::VOut::buf().clear();
    static char dummy[512];
    unsigned short major = SYMENGINE_MAJOR_VERSION, minor = SYMENGINE_MINOR_VERSION;
    RCPBasicAwareOutputArchive<cereal::VOut>{*reinterpret_cast<std::ostream *>(dummy)}(major, minor, M.row_, M.col_, M.m_);
    std::vector<char> bytes = cereal::VOut::buf();
    size_t pos = (size_t)verif_choice("pos", verif_param("maxpos", 40) < (long)bytes.size() ? verif_param("maxpos", 40) : bytes.size());
    unsigned char b;
    verif_bytes(&b, 1, "byte");
    bytes[pos] = (char)b;
    cereal::VIn::buf() = bytes;
    cereal::VIn::pos() = 0;
    try {
        unsigned short ma, mi;
        unsigned row, col;
        vec_basic obj;
        RCPBasicAwareInputArchive<cereal::VIn> ia{*reinterpret_cast<std::istream *>(dummy)};
        ia(ma, mi);
        if (ma != major || mi != minor)
            throw SerializationError("version");
        ia(row, col, obj);
        if (obj.size() != static_cast<size_t>(row) * col) // (the check DenseMatrix::loads makes)
            throw SerializationError("invalid matrix dimensions");
        DenseMatrix L(row, col, std::move(obj));
        // a loaded matrix is used: print it and read every entry it claims to have
        std::string s = L.__str__();
        for (unsigned i = 0; i < L.nrows(); i++)
            for (unsigned j = 0; j < L.ncols(); j++)
                (void)L.get(i, j)->hash();
    } catch (std::exception &) {
    }
    VERIF_END();
}
