// C12 — double-precision evaluators compute the expression's value (formula level: floating-point code executed over the reals,
// libm calls as uninterpreted symbols; rounding error is outside the claim)
#include "vrecipe.h"
#include <symengine/eval_double.h>
#include <symengine/eval.h>
using namespace vr;

extern "C" void harness_c12_eval()
{
    verif_mode_real();
    Gen g;
    g.leaves = {L_NUM, L_SYMNUM};
    g.nums = {{2, 1}, {-1, 2}, {3, 1}, {7, 3}};
    // (exp(u) is stored as E**u, which one evaluator computes with exp() and the other with pow(M_E, u): at formula level the
    //  engine reads pow(M_E, u) as exp(u))
    g.unary = {O_NEG, O_POWI, O_EXP, O_SIN, O_COS, O_TAN, O_LOG, O_SINH, O_COSH, O_TANH, O_ATAN, O_ASIN, O_ERF, O_COT};
    g.binary = {O_ADD, O_SUB, O_MUL, O_DIV};
    g.ipows = {2, 3, -1, -2};
    g.symB = verif_param("symB", 3);
    Recipe r;
    r.root = g.gen(r, (int)verif_param("depth", 2), "t");
    ve::Env env;
    RCP<const Basic> e = build_or_skip(r, r.root);
    Dual ref = eval(r, r.root, env, "");
    double v1 = 0, v2 = 0, v3 = 0;
    bool threw = false;
    try {
        v1 = eval_double(*e);
        v2 = eval_double_single_dispatch(*e);
        v3 = eval_double_visitor_pattern(*e);
    } catch (SymEngineException &) {
        threw = true; // e.g. complex results (log of a negative number): not a real value
    }
    if (!threw) {
        verif_assert_req(v1, ref.v, "eval_double computes the value of the expression");
        verif_assert_req(v2, v1, "single-dispatch evaluator agrees with eval_double");
        verif_assert_req(v3, v1, "visitor evaluator agrees with eval_double");
        RCP<const Basic> ef = evalf(*e, 53, EvalfDomain::Real);
        verif_assert(is_a<RealDouble>(*ef), "evalf at 53 bits returns a RealDouble");
        if (is_a<RealDouble>(*ef))
            verif_assert_req(down_cast<const RealDouble &>(*ef).i, v1, "evalf at 53 bits agrees with eval_double");
    }
    VERIF_END();
}
