// C46 — homogeneous_lde returns exactly the minimal non-zero non-negative solutions (Hilbert basis) of A x = 0
#include "vsym.h"
#include <symengine/diophantine.h>
#include <symengine/matrix.h>
using namespace vs;

extern "C" void harness_c46()
{
    unsigned shape = (unsigned)verif_choice("shape", verif_param("shapes", 3));
    static const unsigned PS[] = {1, 1, 2, 2}, QS[] = {2, 3, 3, 4};
    unsigned P = PS[shape], Qn = QS[shape];
    long B = verif_param("B", 2), K = verif_param("K", 4);
    vec_basic ent;
    integer_class a[2][4];
    for (unsigned i = 0; i < P; i++)
        for (unsigned j = 0; j < Qn; j++) {
            RCP<const Integer> e = sym_integer("a" + std::to_string(i) + std::to_string(j), -B, B);
            ent.push_back(e);
            a[i][j] = e->as_integer_class();
        }
    DenseMatrix A(P, Qn, ent);
    std::vector<DenseMatrix> basis;
    homogeneous_lde(basis, A);
    std::vector<std::vector<integer_class>> bs;
    for (auto &v : basis) {
        std::vector<integer_class> x;
        bool nonzero = false;
        for (unsigned j = 0; j < Qn; j++) {
            RCP<const Basic> e = v.nrows() == 1 ? v.get(0, j) : v.get(j, 0);
            verif_assert(is_a<Integer>(*e), "basis entries are integers");
            x.push_back(down_cast<const Integer &>(*e).as_integer_class());
            verif_assert(x.back() >= 0, "basis vectors are non-negative");
            if (x.back() != 0)
                nonzero = true;
        }
        verif_assert(nonzero, "basis vectors are non-zero");
        for (unsigned i = 0; i < P; i++) {
            integer_class dot = 0;
            for (unsigned j = 0; j < Qn; j++)
                dot += a[i][j] * x[j];
            verif_assert(dot == 0, "A b = 0 for every basis vector");
        }
        bs.push_back(x);
    }
    // each once, and pairwise incomparable (minimality)
    for (size_t s = 0; s < bs.size(); s++)
        for (size_t t = 0; t < bs.size(); t++) {
            if (s == t)
                continue;
            bool le = true;
            for (unsigned j = 0; j < Qn; j++)
                if (bs[s][j] > bs[t][j])
                    le = false;
            verif_assert(!le, "basis vectors are pairwise incomparable (minimal, no repeats)");
        }
    // completeness: every non-zero solution x in [0,K]^q (x symbolic) dominates a basis vector
    integer_class X[4];
    bool nz = false;
    for (unsigned j = 0; j < Qn; j++) {
        RCP<const Integer> xi = sym_integer("x" + std::to_string(j), 0, K);
        X[j] = xi->as_integer_class();
        if (X[j] != 0)
            nz = true;
    }
    bool sol = nz;
    for (unsigned i = 0; i < P && sol; i++) {
        integer_class dot = 0;
        for (unsigned j = 0; j < Qn; j++)
            dot += a[i][j] * X[j];
        if (dot != 0)
            sol = false;
    }
    if (sol) {
        bool dominated = false;
        for (auto &b : bs) {
            bool le = true;
            for (unsigned j = 0; j < Qn; j++)
                if (b[j] > X[j])
                    le = false;
            if (le)
                dominated = true;
        }
        verif_assert(dominated, "every non-zero non-negative solution dominates a basis vector (completeness)");
    }
    VERIF_END();
}
