// C26 — matrix expressions over concrete leaves keep the value of the dense computation; structural predicates are sound
#include "vsym.h"
#include <symengine/matrix_expressions.h>
using namespace vs;

struct M { // dense model: r x c integers
    int r = 0, c = 0;
    integer_class e[2][2];
};
struct Leaf {
    RCP<const MatrixExpr> x;
    M m;
};
static Leaf leaf(const std::string &tag, long B)
{
    Leaf l;
    switch (verif_choice((tag + "_k").c_str(), 4)) {
        case 0: { // dense r x c with symbolic entries
            l.m.r = 1 + (int)verif_choice((tag + "_r").c_str(), 2);
            l.m.c = 1 + (int)verif_choice((tag + "_c").c_str(), 2);
            vec_basic v;
            for (int i = 0; i < l.m.r; i++)
                for (int j = 0; j < l.m.c; j++) {
                    RCP<const Integer> s = sym_integer(tag + "_e" + std::to_string(i) + std::to_string(j), -B, B);
                    l.m.e[i][j] = s->as_integer_class();
                    v.push_back(s);
                }
            l.x = immutable_dense_matrix(l.m.r, l.m.c, v);
            break;
        }
        case 1: { // diagonal n x n
            int n = 1 + (int)verif_choice((tag + "_n").c_str(), 2);
            l.m.r = l.m.c = n;
            vec_basic v;
            for (int i = 0; i < n; i++) {
                RCP<const Integer> s = sym_integer(tag + "_d" + std::to_string(i), -B, B);
                l.m.e[i][i] = s->as_integer_class();
                v.push_back(s);
            }
            l.x = diagonal_matrix(v);
            break;
        }
        case 2: {
            int n = 1 + (int)verif_choice((tag + "_n").c_str(), 2);
            l.m.r = l.m.c = n;
            for (int i = 0; i < n; i++)
                l.m.e[i][i] = 1;
            l.x = identity_matrix(integer(n));
            break;
        }
        default: {
            l.m.r = 1 + (int)verif_choice((tag + "_r").c_str(), 2);
            l.m.c = 1 + (int)verif_choice((tag + "_c").c_str(), 2);
            l.x = zero_matrix(integer(l.m.r), integer(l.m.c));
            break;
        }
    }
    return l;
}
// entry (i,j) of a result expression: concrete forms directly, unevaluated nodes by their mathematical meaning (the library may
// leave e.g. dense + diagonal as a MatrixAdd; its value is then the sum of its terms)
static int rows_of(const MatrixExpr &x) { return (int)down_cast<const Integer &>(*size(x).first).as_int(); }
static int cols_of(const MatrixExpr &x) { return (int)down_cast<const Integer &>(*size(x).second).as_int(); }
static bool entry(const MatrixExpr &x, int i, int j, RCP<const Basic> &out)
{
    if (is_a<ImmutableDenseMatrix>(x)) {
        out = down_cast<const ImmutableDenseMatrix &>(x).get(i, j);
        return true;
    }
    if (is_a<DiagonalMatrix>(x)) {
        out = i == j ? down_cast<const DiagonalMatrix &>(x).get(i) : (RCP<const Basic>)zero;
        return true;
    }
    if (is_a<IdentityMatrix>(x)) {
        out = i == j ? one : zero;
        return true;
    }
    if (is_a<ZeroMatrix>(x)) {
        out = zero;
        return true;
    }
    auto M_ = [](const RCP<const Basic> &b) -> const MatrixExpr & { return down_cast<const MatrixExpr &>(*b); };
    if (is_a<MatrixAdd>(x)) {
        out = zero;
        for (auto &t : down_cast<const MatrixAdd &>(x).get_terms()) {
            RCP<const Basic> e;
            if (!entry(M_(t), i, j, e))
                return false;
            out = add(out, e);
        }
        return true;
    }
    if (is_a<HadamardProduct>(x)) {
        out = one;
        for (auto &t : down_cast<const HadamardProduct &>(x).get_factors()) {
            RCP<const Basic> e;
            if (!entry(M_(t), i, j, e))
                return false;
            out = mul(out, e);
        }
        return true;
    }
    if (is_a<Transpose>(x))
        return entry(*down_cast<const Transpose &>(x).get_arg(), j, i, out);
    if (is_a<ConjugateMatrix>(x))
        return entry(*down_cast<const ConjugateMatrix &>(x).get_arg(), i, j, out); // real entries
    if (is_a<MatrixMul>(x)) {
        const MatrixMul &mm = down_cast<const MatrixMul &>(x);
        const vec_basic &f = mm.get_factors();
        // row vector e_i^T F0 F1 ... then column j
        std::vector<RCP<const Basic>> row;
        int n0 = rows_of(M_(f[0]));
        for (int k = 0; k < n0; k++)
            row.push_back(k == i ? one : zero);
        for (auto &fac : f) {
            int r = rows_of(M_(fac)), c = cols_of(M_(fac));
            std::vector<RCP<const Basic>> next;
            for (int cc = 0; cc < c; cc++) {
                RCP<const Basic> acc = zero;
                for (int rr = 0; rr < r; rr++) {
                    RCP<const Basic> e;
                    if (!entry(M_(fac), rr, cc, e))
                        return false;
                    acc = add(acc, mul(row[rr], e));
                }
                next.push_back(acc);
            }
            row = next;
        }
        out = mul(mm.get_scalar(), row[j]);
        return true;
    }
    return false;
}
static void check_value(const RCP<const MatrixExpr> &x, const M &m, const char *what)
{
    auto sz = size(*x);
    verif_assert(eq(*sz.first, *integer(m.r)) && eq(*sz.second, *integer(m.c)), "size() is the size of the dense result");
    bool concrete = true;
    for (int i = 0; i < m.r; i++)
        for (int j = 0; j < m.c; j++) {
            RCP<const Basic> e;
            if (!entry(*x, i, j, e)) {
                concrete = false;
                continue;
            }
            verif_assert(eq(*e, *integer(m.e[i][j])), what);
        }
    verif_assert(concrete, "the result is built from concrete matrices and matrix operations (its value is defined)");
    // structural predicates: a definite answer must be the truth about the dense matrix
    bool sq = m.r == m.c, zeroM = true, diag = true, sym = sq, low = true, up = true, toep = true;
    for (int i = 0; i < m.r; i++)
        for (int j = 0; j < m.c; j++) {
            if (m.e[i][j] != 0) {
                zeroM = false;
                if (i != j)
                    diag = false;
                if (j > i)
                    low = false;
                if (i > j)
                    up = false;
            }
            if (sq && m.e[i][j] != m.e[j][i])
                sym = false;
            if (i > 0 && j > 0 && m.e[i][j] != m.e[i - 1][j - 1])
                toep = false;
        }
    auto sound = [&](tribool t, bool truth, const char *msg) {
        if (is_true(t))
            verif_assert(truth, msg);
        if (is_false(t))
            verif_assert(!truth, msg);
    };
    sound(is_zero(*x), zeroM, "is_zero is sound");
    sound(is_square(*x), sq, "is_square is sound");
    sound(is_real(*x), true, "is_real is sound");
    sound(is_toeplitz(*x), toep, "is_toeplitz is sound");
    if (sq) { // diagonal / symmetric / triangular are notions of square matrices
        sound(is_diagonal(*x), diag, "is_diagonal is sound");
        sound(is_symmetric(*x), sym, "is_symmetric is sound");
        sound(is_lower(*x), low, "is_lower is sound");
        sound(is_upper(*x), up, "is_upper is sound");
    } else {
        verif_assert(!is_true(is_diagonal(*x)) || diag, "is_diagonal is never true for a matrix with an off-diagonal entry");
        verif_assert(!is_true(is_symmetric(*x)), "a non-square matrix is not symmetric");
    }
}
extern "C" void harness_c26_ops()
{
    long B = verif_param("B", 2);
    Leaf a = leaf("a", B);
    check_value(a.x, a.m, "a leaf has its own entries");
    int op = (int)verif_choice("op", 7);
    M r;
    RCP<const MatrixExpr> x;
    bool defined = true, threw = false;
    if (op < 3) {
        Leaf b = leaf("b", B);
        if (op == 0 || op == 2) { // add, hadamard
            defined = a.m.r == b.m.r && a.m.c == b.m.c;
            r.r = a.m.r;
            r.c = a.m.c;
            for (int i = 0; i < 2; i++)
                for (int j = 0; j < 2; j++)
                    r.e[i][j] = op == 0 ? a.m.e[i][j] + b.m.e[i][j] : a.m.e[i][j] * b.m.e[i][j];
        } else {
            defined = a.m.c == b.m.r;
            r.r = a.m.r;
            r.c = b.m.c;
            for (int i = 0; i < 2; i++)
                for (int j = 0; j < 2; j++) {
                    r.e[i][j] = 0;
                    for (int k = 0; k < a.m.c && k < 2; k++)
                        r.e[i][j] += a.m.e[i][k] * b.m.e[k][j];
                }
        }
        try {
            x = op == 0 ? matrix_add({a.x, b.x}) : op == 1 ? matrix_mul({a.x, b.x}) : hadamard_product({a.x, b.x});
        } catch (DomainError &) {
            threw = true;
        }
        verif_assert(threw == !defined, "a dimension mismatch is rejected, matching dimensions are accepted");
        if (!threw)
            check_value(x, r, "entry of A op B equals the dense computation");
    } else if (op == 6) { // scalar multiple through matrix_mul({k, A}), k a symbolic integer
        RCP<const Integer> k = sym_integer("k", -B, B);
        r.r = a.m.r;
        r.c = a.m.c;
        for (int i = 0; i < 2; i++)
            for (int j = 0; j < 2; j++)
                r.e[i][j] = k->as_integer_class() * a.m.e[i][j];
        check_value(matrix_mul({k, a.x}), r, "entry of k*A");
    } else if (op == 3 || op == 4) {
        r.r = a.m.c;
        r.c = a.m.r;
        for (int i = 0; i < 2; i++)
            for (int j = 0; j < 2; j++)
                r.e[i][j] = a.m.e[j][i];
        if (op == 3)
            check_value(transpose(a.x), r, "entry of the transpose");
        else
            check_value(conjugate_matrix(a.x), a.m, "conjugate of a real matrix is the matrix");
    } else {
        RCP<const Basic> t;
        try {
            t = trace(a.x);
        } catch (DomainError &) {
            threw = true;
        }
        verif_assert(threw == (a.m.r != a.m.c), "trace is defined exactly for square matrices");
        if (!threw) {
            integer_class s = 0;
            for (int i = 0; i < a.m.r; i++)
                s += a.m.e[i][i];
            verif_assert(eq(*t, *integer(s)), "trace is the sum of the diagonal");
        }
    }
    VERIF_END();
}
// trees of depth 2: (A op1 B) op2 C, and scalars / symbols in products
extern "C" void harness_c26_trees()
{
    long B = verif_param("B", 1);
    // square 2x2 leaves only (so that every combination is defined)
    auto sq = [&](const std::string &tag, bool mayBeDense) {
        Leaf l;
        l.m.r = l.m.c = 2;
        switch ((mayBeDense ? 0 : 1) + verif_choice((tag + "_k").c_str(), mayBeDense ? 4 : 3)) {
            case 0: {
                vec_basic v;
                for (int i = 0; i < 2; i++)
                    for (int j = 0; j < 2; j++) {
                        RCP<const Integer> s = sym_integer(tag + "_e" + std::to_string(i) + std::to_string(j), -B, B);
                        l.m.e[i][j] = s->as_integer_class();
                        v.push_back(s);
                    }
                l.x = immutable_dense_matrix(2, 2, v);
                break;
            }
            case 1: {
                vec_basic v;
                for (int i = 0; i < 2; i++) {
                    RCP<const Integer> s = sym_integer(tag + "_d" + std::to_string(i), -B, B);
                    l.m.e[i][i] = s->as_integer_class();
                    v.push_back(s);
                }
                l.x = diagonal_matrix(v);
                break;
            }
            case 2:
                l.m.e[0][0] = l.m.e[1][1] = 1;
                l.x = identity_matrix(integer(2));
                break;
            default: l.x = zero_matrix(integer(2), integer(2)); break;
        }
        return l;
    };
    auto apply = [&](int op, const Leaf &p, const Leaf &q) {
        Leaf r;
        r.m.r = r.m.c = 2;
        for (int i = 0; i < 2; i++)
            for (int j = 0; j < 2; j++) {
                if (op == 0)
                    r.m.e[i][j] = p.m.e[i][j] + q.m.e[i][j];
                else if (op == 2)
                    r.m.e[i][j] = p.m.e[i][j] * q.m.e[i][j];
                else
                    r.m.e[i][j] = p.m.e[i][0] * q.m.e[0][j] + p.m.e[i][1] * q.m.e[1][j];
            }
        r.x = op == 0 ? matrix_add({p.x, q.x}) : op == 1 ? matrix_mul({p.x, q.x}) : hadamard_product({p.x, q.x});
        return r;
    };
    long dm = verif_param("dense_mask", 7); // which of the three leaves may be dense (quick tier: only A)
    Leaf a = sq("a", dm & 1), b = sq("b", dm & 2), c = sq("c", dm & 4);
    int op1 = (int)verif_choice("op1", 3), op2 = (int)verif_choice("op2", 3);
    Leaf ab = apply(op1, a, b);
    Leaf abc = verif_choice("side", 2) ? apply(op2, ab, c) : apply(op2, c, ab);
    check_value(abc.x, abc.m, "entry of (A op1 B) op2 C equals the dense computation");
    // n-ary forms agree with nested ones
    if (op1 == op2 && op1 != 1) {
        RCP<const MatrixExpr> flat = op1 == 0 ? matrix_add({a.x, b.x, c.x}) : hadamard_product({a.x, b.x, c.x});
        check_value(flat, abc.m, "n-ary add / Hadamard product");
    }
    VERIF_END();
}
