// C34 — property queries under assumptions are sound
#include "vrecipe.h"
#include <symengine/test_visitors.h>
#include <symengine/assumptions.h>
#include <symengine/sets.h>
using namespace vr;

// a symbol's value: a real, or an integer (kept as a z3 Int), constrained by the chosen assumption
struct SymVal {
    double v;
    bool isint;
};
static SymVal assume_symbol(const RCP<const Basic> &s, const std::string &name, set_basic &st)
{
    SymVal r;
    int kind = (int)verif_choice((name + "_dom").c_str(), 2); // 0 real, 1 integer
    if (kind == 1) {
        integer_class z = vs::sym_integer(name + "_int", -6, 6)->as_integer_class();
        r.v = verif_mpz_real(get_mpz_t(z));
        r.isint = true;
        st.insert(contains(s, integers()));
    } else {
        r.v = verif_real(name.c_str());
        r.isint = false;
        st.insert(contains(s, reals()));
    }
    switch (verif_choice((name + "_sign").c_str(), 6)) {
        case 0: break;
        case 1: st.insert(Gt(s, zero)); verif_assume(r.v > 0); break;
        case 2: st.insert(Lt(s, zero)); verif_assume(r.v < 0); break;
        case 3: st.insert(Ge(s, zero)); verif_assume(r.v >= 0); break;
        case 4: st.insert(Le(s, zero)); verif_assume(r.v <= 0); break;
        default: st.insert(Ne(s, zero)); verif_assume(r.v != 0); break;
    }
    return r;
}
extern "C" void harness_c34()
{
    RCP<const Basic> x = symbol("x"), y = symbol("y");
    set_basic st;
    ve::Env env;
    SymVal sx = assume_symbol(x, "x", st), sy = assume_symbol(y, "y", st);
    env.val["x"] = sx.v;
    env.val["y"] = sy.v;
    Assumptions as(st);
    long c = (long)verif_choice("c", 5) - 2; // -2..2
    RCP<const Basic> e;
    switch (verif_choice("shape", 12)) {
        case 0: e = x; break;
        case 1: e = add(x, y); break;
        case 2: e = mul(x, y); break;
        case 3: e = pow(x, integer(2)); break;
        case 4: e = add(pow(x, integer(2)), pow(y, integer(2))); break;
        case 5: e = add(mul(integer(c), x), integer(1)); break;
        case 6: e = mul(integer(c), mul(x, y)); break;
        case 7: e = abs(x); break;
        case 8: e = add(abs(x), integer(c)); break;
        case 9: e = sub(x, y); break;
        case 10: e = pow(x, integer(3)); break;
        default: e = mul(x, add(y, integer(c))); break;
    }
    double v;
    try {
        v = ve::ev(*e, env);
    } catch (ve::Unsupported &) {
        verif_assume(false);
    }
    tribool z = is_zero(*e, &as), nz = is_nonzero(*e, &as), pos = is_positive(*e, &as), neg = is_negative(*e, &as), nn = is_nonnegative(*e, &as), np = is_nonpositive(*e, &as),
            re = is_real(*e, &as), in = is_integer(*e, &as);
    if (is_true(z)) verif_assert(v == 0, "is_zero true => value is zero");
    if (is_false(z)) verif_assert(v != 0, "is_zero false => value is non-zero");
    if (is_true(nz)) verif_assert(v != 0, "is_nonzero true => value is non-zero");
    if (is_false(nz)) verif_assert(v == 0, "is_nonzero false => value is zero");
    if (is_true(pos)) verif_assert(v > 0, "is_positive true => value > 0");
    if (is_false(pos)) verif_assert(!(v > 0), "is_positive false => value <= 0");
    if (is_true(neg)) verif_assert(v < 0, "is_negative true => value < 0");
    if (is_false(neg)) verif_assert(!(v < 0), "is_negative false => value >= 0");
    if (is_true(nn)) verif_assert(v >= 0, "is_nonnegative true => value >= 0");
    if (is_false(nn)) verif_assert(v < 0, "is_nonnegative false => value < 0");
    if (is_true(np)) verif_assert(v <= 0, "is_nonpositive true => value <= 0");
    if (is_false(np)) verif_assert(v > 0, "is_nonpositive false => value > 0");
    verif_assert(!is_false(re), "a real-valued expression is never reported non-real");
    // every shape is a polynomial (or abs of one) with integer coefficients: over integer symbols its value is an integer by
    // closure of Z under + * abs, so the solver is only asked when a real-valued symbol occurs
    set_basic fs = free_symbols(*e);
    bool closed = (!fs.count(x) || sx.isint) && (!fs.count(y) || sy.isint);
    if (is_true(in) && !closed) verif_assert(std::floor(v) == v, "is_integer true => value is an integer");
    if (is_false(in)) {
        verif_assert(!closed, "is_integer false for an integer-valued expression");
        verif_assert(std::floor(v) != v, "is_integer false => value is not an integer");
    }
    VERIF_END();
}

// is_real of square roots: sqrt(u) is real exactly when u >= 0
extern "C" void harness_c34_real()
{
    RCP<const Basic> x = symbol("x"), y = symbol("y");
    set_basic st;
    ve::Env env;
    SymVal sx = assume_symbol(x, "x", st), sy = assume_symbol(y, "y", st);
    env.val["x"] = sx.v;
    env.val["y"] = sy.v;
    Assumptions as(st);
    long c = (long)verif_choice("c", 5) - 2;
    RCP<const Basic> u;
    switch (verif_choice("shape", 9)) {
        case 0: u = x; break;
        case 1: u = add(x, integer(c)); break;
        case 2: u = mul(x, y); break;
        case 3: u = pow(x, integer(2)); break;
        case 4: u = abs(x); break;
        case 5: u = add(pow(x, integer(2)), pow(y, integer(2))); break;
        case 6: u = neg(pow(x, integer(2))); break;
        case 7: u = mul(integer(c), x); break;
        default: u = add(abs(x), integer(c)); break;
    }
    double uv = ve::ev(*u, env);
    int form = (int)verif_choice("form", 3);
    RCP<const Basic> e = form == 0 ? sqrt(u) : form == 1 ? pow(u, div(integer(3), integer(2))) : add(sqrt(u), y);
    tribool re = is_real(*e, &as);
    if (is_true(re))
        verif_assert(uv >= 0, "is_real true for a square root => the radicand is non-negative for all admissible values");
    if (is_false(re))
        verif_assert(uv < 0, "is_real false for a square root => the radicand is negative for all admissible values");
    VERIF_END();
}
