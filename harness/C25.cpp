// C25 — CSR matrices stay canonical and agree with dense ones.  Inductive step: an ARBITRARY canonical CSR pre-state (symbolic row
// lengths and column indices), one operation with symbolic arguments; post-state canonical and equal to the dense model.
#include "vsym.h"
#include <symengine/matrix.h>
using namespace vs;

static const unsigned RMAX = 3, CMAX = 3;
struct Dense {
    unsigned r, c;
    RCP<const Basic> a[RMAX][CMAX];
};
// arbitrary canonical CSR matrix of shape R x C with distinct symbols as values; also returns the dense model
static CSRMatrix arbitrary_csr(const std::string &tag, unsigned R, unsigned C, Dense &d)
{
    std::vector<unsigned> p = {0}, j;
    vec_basic x;
    d.r = R;
    d.c = C;
    for (unsigned r = 0; r < R; r++)
        for (unsigned c = 0; c < C; c++)
            d.a[r][c] = zero;
    unsigned k = 0;
    for (unsigned r = 0; r < R; r++) {
        unsigned cnt = (unsigned)verif_i64((tag + "_n" + std::to_string(r)).c_str(), 0, C);
        long prev = -1;
        for (unsigned t = 0; t < cnt; t++, k++) {
            long col = verif_i64((tag + "_j" + std::to_string(r) + std::to_string(t)).c_str(), 0, C - 1);
            verif_assume(col > prev); // canonical: strictly increasing columns
            prev = col;
            j.push_back((unsigned)col);
            RCP<const Basic> v = symbol(tag + std::to_string(k));
            x.push_back(v);
            for (unsigned c = 0; c < C; c++)
                if ((long)c == col)
                    d.a[r][c] = v;
        }
        p.push_back((unsigned)j.size());
    }
    return CSRMatrix(R, C, p, j, x);
}
// independent canonical-format check on the raw arrays
static void assert_canonical(const CSRMatrix &A, const char *what)
{
    auto v = A.as_vectors();
    const std::vector<unsigned> &p = std::get<0>(v), &j = std::get<1>(v);
    const vec_basic &x = std::get<2>(v);
    verif_assert(p.size() == A.nrows() + 1 && p[0] == 0, what);
    verif_assert(j.size() == x.size() && p.back() == j.size(), what);
    for (unsigned r = 0; r < A.nrows(); r++) {
        verif_assert(p[r] <= p[r + 1], what);
        for (unsigned t = p[r]; t < p[r + 1]; t++) {
            verif_assert(j[t] < A.ncols(), what);
            if (t > p[r])
                verif_assert(j[t - 1] < j[t], what);
        }
    }
}
static void assert_equals_dense(const CSRMatrix &A, const Dense &d, const char *what)
{
    verif_assert(A.nrows() == d.r && A.ncols() == d.c, "shape");
    for (unsigned r = 0; r < d.r; r++)
        for (unsigned c = 0; c < d.c; c++)
            verif_assert(eq(*A.get(r, c), *d.a[r][c]), what);
}
extern "C" void harness_c25_set()
{
    unsigned R = (unsigned)verif_param("R", 2), C = (unsigned)verif_param("C", 3);
    Dense d;
    CSRMatrix A = arbitrary_csr("a", R, C, d);
    unsigned si = (unsigned)verif_i64("si", 0, R - 1), sj = (unsigned)verif_i64("sj", 0, C - 1);
    RCP<const Basic> e = verif_choice("nz", 2) ? (RCP<const Basic>)symbol("new") : (RCP<const Basic>)zero;
    A.set(si, sj, e);
    for (unsigned r = 0; r < R; r++)
        for (unsigned c = 0; c < C; c++)
            if (r == si && c == sj)
                d.a[r][c] = e;
    assert_canonical(A, "canonical after set");
    assert_equals_dense(A, d, "set/get agree with the dense model");
    // a second update from the reached state (histories of length two on top of the arbitrary state)
    unsigned ti = (unsigned)verif_i64("ti", 0, R - 1), tj = (unsigned)verif_i64("tj", 0, C - 1);
    RCP<const Basic> f = verif_choice("nz2", 2) ? (RCP<const Basic>)symbol("new2") : (RCP<const Basic>)zero;
    A.set(ti, tj, f);
    for (unsigned r = 0; r < R; r++)
        for (unsigned c = 0; c < C; c++)
            if (r == ti && c == tj)
                d.a[r][c] = f;
    assert_canonical(A, "canonical after second set");
    assert_equals_dense(A, d, "second set/get agree with the dense model");
    VERIF_END();
}
// from_coo with symbolic, possibly duplicate, coordinates: duplicates are summed
extern "C" void harness_c25_coo()
{
    unsigned R = 2, C = 3, n = (unsigned)verif_param("ntrip", 3);
    std::vector<unsigned> ii, jj;
    vec_basic xx;
    Dense d;
    d.r = R;
    d.c = C;
    for (unsigned r = 0; r < R; r++)
        for (unsigned c = 0; c < C; c++)
            d.a[r][c] = zero;
    for (unsigned t = 0; t < n; t++) {
        unsigned i = (unsigned)verif_i64(("i" + std::to_string(t)).c_str(), 0, R - 1), j = (unsigned)verif_i64(("j" + std::to_string(t)).c_str(), 0, C - 1);
        RCP<const Basic> v = symbol("v" + std::to_string(t));
        ii.push_back(i);
        jj.push_back(j);
        xx.push_back(v);
        for (unsigned r = 0; r < R; r++)
            for (unsigned c = 0; c < C; c++)
                if (r == i && c == j)
                    d.a[r][c] = add(d.a[r][c], v);
    }
    CSRMatrix A = CSRMatrix::from_coo(R, C, ii, jj, xx);
    assert_canonical(A, "canonical after from_coo");
    assert_equals_dense(A, d, "from_coo sums duplicates");
    VERIF_END();
}
// unary / binary operations against the dense model
extern "C" void harness_c25_ops()
{
    unsigned op = (unsigned)verif_choice("op", 6);
    Dense da, db, dr;
    if (op == 0) { // transpose
        CSRMatrix A = arbitrary_csr("a", 2, 3, da);
        CSRMatrix T = A.transpose();
        dr.r = 3;
        dr.c = 2;
        for (unsigned r = 0; r < 3; r++)
            for (unsigned c = 0; c < 2; c++)
                dr.a[r][c] = da.a[c][r];
        assert_canonical(T, "canonical after transpose");
        assert_equals_dense(T, dr, "transpose agrees with dense");
    } else if (op == 1 || op == 2) { // add (csr_binop_csr_canonical), elementwise product
        CSRMatrix A = arbitrary_csr("a", 2, 3, da), B = arbitrary_csr("b", 2, 3, db);
        CSRMatrix Rm(2, 3);
        if (op == 1)
            csr_binop_csr_canonical(A, B, Rm, add);
        else
            A.elementwise_mul_matrix(B, Rm);
        dr.r = 2;
        dr.c = 3;
        for (unsigned r = 0; r < 2; r++)
            for (unsigned c = 0; c < 3; c++)
                dr.a[r][c] = op == 1 ? add(da.a[r][c], db.a[r][c]) : mul(da.a[r][c], db.a[r][c]);
        assert_canonical(Rm, "canonical after binary op");
        assert_equals_dense(Rm, dr, "binary op agrees with dense");
    } else if (op == 3) { // matrix product 2x2 * 2x2 through the two passes, then sorted
        CSRMatrix A = arbitrary_csr("a", 2, 2, da), B = arbitrary_csr("b", 2, 2, db);
        CSRMatrix Rm(2, 2);
        csr_matmat_pass1(A, B, Rm);
        Rm.j_.resize(Rm.p_[2]);
        Rm.x_.resize(Rm.p_[2]);
        csr_matmat_pass2(A, B, Rm);
        CSRMatrix::csr_sort_indices(Rm.p_, Rm.j_, Rm.x_, 2);
        dr.r = 2;
        dr.c = 2;
        for (unsigned r = 0; r < 2; r++)
            for (unsigned c = 0; c < 2; c++)
                dr.a[r][c] = add(mul(da.a[r][0], db.a[0][c]), mul(da.a[r][1], db.a[1][c]));
        assert_canonical(Rm, "canonical after matrix product");
        assert_equals_dense(Rm, dr, "matrix product agrees with dense");
    } else if (op == 4) { // row / column scaling and the diagonal
        CSRMatrix A = arbitrary_csr("a", 2, 2, da);
        DenseMatrix D(2, 1);
        csr_diagonal(A, D);
        verif_assert(eq(*D.get(0, 0), *da.a[0][0]) && eq(*D.get(1, 0), *da.a[1][1]), "csr_diagonal agrees with dense");
        DenseMatrix X(2, 1, {symbol("s0"), symbol("s1")});
        bool rows = verif_choice("rows", 2);
        if (rows)
            csr_scale_rows(A, X);
        else
            csr_scale_columns(A, X);
        dr.r = 2;
        dr.c = 2;
        for (unsigned r = 0; r < 2; r++)
            for (unsigned c = 0; c < 2; c++)
                dr.a[r][c] = mul(da.a[r][c], X.get(rows ? r : c, 0));
        assert_canonical(A, "canonical after scaling");
        assert_equals_dense(A, dr, "scaling agrees with dense");
    } else { // eq against itself and against a modified copy
        CSRMatrix A = arbitrary_csr("a", 2, 3, da);
        CSRMatrix B = A;
        verif_assert(A.eq(B), "a CSR matrix equals its copy");
        unsigned si = (unsigned)verif_i64("si", 0, 1), sj = (unsigned)verif_i64("sj", 0, 2);
        B.set(si, sj, symbol("other"));
        verif_assert(!A.eq(B), "changing one entry makes the matrices different");
    }
    VERIF_END();
}
