// C28 — boolean simplification preserves truth value
#include "vsym.h"
#include <symengine/logic.h>
#include <symengine/sets.h>
#include <symengine/subs.h>
using namespace vs;

// atom over x (value xv = xn/2) with its truth computed directly
struct Atom {
    RCP<const Boolean> f;
    bool t;
};
static Atom atom(const std::string &tag, const RCP<const Basic> &x, const integer_class &xn, long B, unsigned kinds = 7)
{
    if (kinds == 0) // quick tier: a fixed third atom
        return {Lt(x, integer(0)), xn < 0};
    long lo_ = verif_param("nonneg", 0) ? 0 : -B; // quick tier: constants in [0, B]
    RCP<const Integer> c = sym_integer(nm(tag, "c"), lo_, B, verif_param("bv", 0));
    integer_class c2 = c->as_integer_class() * 2;
    switch (verif_choice((tag + "_k").c_str(), kinds)) {
        case 0: return {Lt(x, c), xn < c2};
        case 1: return {Le(x, c), xn <= c2};
        case 2: return {Eq(x, c), xn == c2};
        case 3: return {Ne(x, c), xn != c2};
        case 4: return {Gt(x, c), xn > c2};
        case 5: {
            RCP<const Integer> d = sym_integer(nm(tag, "d"), lo_, B, verif_param("bv", 0));
            verif_assume(c->as_integer_class() < d->as_integer_class());
            bool lo = verif_choice(nm(tag, "lo").c_str(), 2);
            integer_class d2 = d->as_integer_class() * 2;
            return {contains(x, interval(c, d, lo, false)), (lo ? xn > c2 : xn >= c2) && xn <= d2};
        }
        default: {
            RCP<const Integer> d = sym_integer(nm(tag, "d"), lo_, B, verif_param("bv", 0));
            return {contains(x, finiteset({c, d})), xn == c2 || xn == d->as_integer_class() * 2};
        }
    }
}
static bool truth_at(const RCP<const Basic> &f, const RCP<const Basic> &x, const RCP<const Number> &xv, bool &definite)
{
    map_basic_basic m;
    m[x] = xv;
    RCP<const Basic> r = f->subs(m);
    definite = is_a<BooleanAtom>(*r);
    return definite && down_cast<const BooleanAtom &>(*r).get_val();
}
extern "C" void harness_c28_connectives()
{
    long B = verif_param("B", 2);
    RCP<const Basic> x = symbol("x");
    RCP<const Integer> xn = sym_integer("xn", verif_param("nonneg", 0) ? -1 : -2 * B - 1, 2 * B + 1, verif_param("bv", 0));
    RCP<const Number> xv = Rational::from_two_ints(*xn, *integer(2));
    Atom a = atom("a", x, xn->as_integer_class(), B), b = atom("b", x, xn->as_integer_class(), B, (unsigned)verif_param("bkinds", 7)), c = atom("c", x, xn->as_integer_class(), B, (unsigned)verif_param("ckinds", 7));
    int op = (int)verif_choice("op", 10);
    RCP<const Boolean> f;
    bool t;
    switch (op) {
        case 0: f = logical_and({a.f, b.f, c.f}); t = a.t && b.t && c.t; break;
        case 1: f = logical_or({a.f, b.f, c.f}); t = a.t || b.t || c.t; break;
        case 2: f = logical_not(logical_and({a.f, b.f})); t = !(a.t && b.t); break;
        case 3: f = logical_xor({a.f, b.f, c.f}); t = (a.t != b.t) != c.t; break;
        case 4: f = logical_nand({a.f, b.f}); t = !(a.t && b.t); break;
        case 5: f = logical_nor({a.f, b.f}); t = !(a.t || b.t); break;
        case 6: f = logical_xnor({a.f, b.f}); t = a.t == b.t; break;
        case 7: f = logical_or({logical_and({a.f, b.f}), logical_not(c.f)}); t = (a.t && b.t) || !c.t; break;
        case 8: f = logical_and({logical_or({a.f, logical_not(b.f)}), c.f, logical_not(a.f)}); t = (a.t || !b.t) && c.t && !a.t; break;
        default: f = logical_not(logical_or({logical_not(a.f), logical_and({b.f, c.f})})); t = !(!a.t || (b.t && c.t)); break;
    }
    bool def;
    bool v = truth_at(f, x, xv, def);
    verif_assert(def, "a formula over relational atoms on x is decided once x is a number");
    if (def)
        verif_assert(v == t, "the simplified formula has the truth value of the unsimplified one");
    VERIF_END();
}
// piecewise construction: the value selected at a point is that of the first true condition
extern "C" void harness_c28_piecewise()
{
    long B = verif_param("B", 2);
    RCP<const Basic> x = symbol("x");
    RCP<const Integer> xn = sym_integer("xn", verif_param("nonneg", 0) ? -1 : -2 * B - 1, 2 * B + 1, verif_param("bv", 0));
    RCP<const Number> xv = Rational::from_two_ints(*xn, *integer(2));
    Atom a = atom("a", x, xn->as_integer_class(), B), b = atom("b", x, xn->as_integer_class(), B, (unsigned)verif_param("bkinds", 7));
    RCP<const Basic> pw = piecewise({{integer(10), a.f}, {integer(20), b.f}, {integer(30), boolTrue}});
    map_basic_basic m;
    m[x] = xv;
    RCP<const Basic> r = pw->subs(m);
    long expect = a.t ? 10 : (b.t ? 20 : 30);
    verif_assert(is_a<Integer>(*r) && eq(*r, *integer(expect)), "piecewise selects the value of the first true condition");
    VERIF_END();
}
