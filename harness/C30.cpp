// C30 — equation solving returns exactly the solution set
#include "vsym.h"
#include <symengine/solve.h>
#include <symengine/sets.h>
#include <symengine/matrix.h>
using namespace vs;

static RCP<const Basic> poly_at(const std::vector<RCP<const Integer>> &c, const RCP<const Basic> &r)
{
    RCP<const Basic> v = zero, pw = one;
    for (auto &ci : c) {
        v = add(v, mul(ci, pw));
        pw = mul(pw, r);
    }
    return expand(v);
}
extern "C" void harness_c30_poly()
{
    long B = verif_param("B", 4);
    unsigned deg = 1 + (unsigned)verif_choice("deg", verif_param("maxdeg", 2));
    std::vector<RCP<const Integer>> c;
    // the constant term is symbolic; the higher coefficients are enumerated so that the discriminant stays linear in the solver
    c.push_back(sym_integer("c0", -B * B, B * B));
    for (unsigned i = 1; i <= deg; i++)
        c.push_back(integer((long)verif_choice(("c" + std::to_string(i)).c_str(), 2 * B + 1) - B));
    verif_assume(c[deg]->as_integer_class() != 0);
    RCP<const Symbol> x = symbol("x");
    RCP<const Basic> f = zero;
    for (unsigned i = 0; i <= deg; i++)
        f = add(f, mul(c[i], pow(x, integer((long)i))));
    RCP<const Set> sol = solve(f, x);
    verif_assert(is_a<FiniteSet>(*sol), "a polynomial equation of degree 1 or 2 has a finite solution set");
    if (!is_a<FiniteSet>(*sol)) {
        VERIF_END();
        return;
    }
    const set_basic &roots = down_cast<const FiniteSet &>(*sol).get_container();
    for (auto &r : roots)
        verif_assert(eq(*poly_at(c, r), *zero), "every returned element is a root");
    if (deg == 1) {
        verif_assert(roots.size() == 1, "a linear equation has exactly one solution");
        // the root is -c0/c1 exactly
        verif_assert(eq(**roots.begin(), *div(neg(c[0]), c[1])), "the solution of c1 x + c0 = 0 is -c0/c1");
    } else {
        integer_class D = c[1]->as_integer_class() * c[1]->as_integer_class() - integer_class(4) * c[2]->as_integer_class() * c[0]->as_integer_class();
        verif_assert(roots.size() == (D == 0 ? 1u : 2u), "a quadratic has one solution iff its discriminant vanishes, else two");
        // Vieta: sum of roots == -c1/c2 (double root counted once when D == 0)
        RCP<const Basic> s = zero;
        for (auto &r : roots)
            s = add(s, r);
        if (D == 0)
            s = mul(integer(2), s);
        verif_assert(eq(*expand(s), *div(neg(c[1]), c[2])), "the roots sum to -c1/c2 (Vieta)");
    }
    VERIF_END();
}
// cubics and quartics given by their integer roots (one path per root tuple): every rational element of the returned set is a root,
// and every integer root is reported as a member (elements left as unsimplified radicals are not judged)
extern "C" void harness_c30_factored()
{
    long B = verif_param("B", 2);
    unsigned n = 3 + (unsigned)verif_choice("deg", 2);
    RCP<const Symbol> x = symbol("x");
    std::vector<long> rs;
    RCP<const Basic> f = integer(1 + (long)verif_choice("lead", 2)); // leading coefficient 1 or 2
    for (unsigned i = 0; i < n; i++) {
        long r = -B + (long)verif_choice(("r" + std::to_string(i)).c_str(), 2 * B + 1);
        if (i > 0)
            verif_assume(r >= rs.back()); // unordered tuples once
        rs.push_back(r);
        f = mul(f, sub(x, integer(r)));
    }
    f = expand(f);
    RCP<const Set> sol = solve(f, x);
    verif_assert(is_a<FiniteSet>(*sol), "a cubic / quartic with integer roots has a finite solution set");
    if (is_a<FiniteSet>(*sol)) {
        const set_basic &roots = down_cast<const FiniteSet &>(*sol).get_container();
        bool allNumbers = true;
        for (auto &r : roots) {
            if (is_a<Integer>(*r) || is_a<Rational>(*r)) {
                map_basic_basic m;
                m[x] = r;
                verif_assert(eq(*expand(f->subs(m)), *zero), "every rational element of the solution set is a root");
            } else
                allNumbers = false;
        }
        if (allNumbers) {
            for (long r : rs)
                verif_assert(roots.count(integer(r)) == 1, "every root of the product is in the solution set");
            verif_assert(roots.size() <= n, "no more solutions than the degree");
        }
    }
    VERIF_END();
}
// linear systems: linsolve on an augmented 2x3 matrix
extern "C" void harness_c30_linsolve()
{
    long B = verif_param("B", 3);
    RCP<const Integer> a = sym_integer("a", -B, B), b = sym_integer("b", -B, B), c = sym_integer("c", -B, B), d = sym_integer("d", -B, B), e = sym_integer("e", -B, B),
                       f = sym_integer("f", -B, B);
    integer_class det = a->as_integer_class() * d->as_integer_class() - b->as_integer_class() * c->as_integer_class();
    verif_assume(det != 0);
    DenseMatrix M(2, 3, {a, b, e, c, d, f});
    RCP<const Symbol> x = symbol("x"), y = symbol("y");
    vec_basic s = linsolve(M, {x, y});
    verif_assert(s.size() == 2, "linsolve returns one value per unknown");
    if (s.size() == 2) {
        verif_assert(eq(*expand(add(mul(a, s[0]), mul(b, s[1]))), *e), "first equation holds");
        verif_assert(eq(*expand(add(mul(c, s[0]), mul(d, s[1]))), *f), "second equation holds");
    }
    VERIF_END();
}
