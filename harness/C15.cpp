// C15 — generated C code computes the expression's value.  The printer runs symbolically on every recipe tree; the emitted text is
// parsed by a small interpreter of the C expression grammar written in this harness (C operator precedence, integer vs floating
// literals with the usual arithmetic conversions, the <math.h> names), evaluated at formula level over the reals with the inputs
// x, y, p as solver variables, and compared with the textbook value of the recipe.
#include "vrecipe.h"
#include <symengine/printers.h>
#include <symengine/printers/codegen.h>
#include <symengine/logic.h>
using namespace vr;

namespace ci
{
struct V { // a C value: an int, or a double given exactly (rational p/q) or as a real-valued term
    enum K { INT, RAT, REAL } k = INT;
    long i = 0, p = 0, q = 1;
    double d = 0;
    double asReal() const { return k == INT ? verif_rational(i, 1) : k == RAT ? verif_rational(p, q) : d; }
    bool exact() const { return k != REAL; }
};
static long gcd_(long a, long b) { a = a < 0 ? -a : a; b = b < 0 ? -b : b; while (b) { long t = a % b; a = b; b = t; } return a ? a : 1; }
static V rat(long p, long q)
{
    if (q < 0) { p = -p; q = -q; }
    long g = gcd_(p, q);
    V v;
    v.k = V::RAT;
    v.p = p / g;
    v.q = q / g;
    return v;
}
static V real(double d) { V v; v.k = V::REAL; v.d = d; return v; }
static V integer_(long i) { V v; v.k = V::INT; v.i = i; return v; }
static V toD(const V &a) { return a.k == V::INT ? rat(a.i, 1) : a; } // int -> double conversion
struct Syntax { std::string msg; };
struct P {
    const std::string &s;
    size_t i = 0;
    ve::Env &env;
    P(const std::string &s_, ve::Env &e) : s(s_), env(e) {}
    void ws() { while (i < s.size() && (s[i] == ' ' || s[i] == '\n' || s[i] == '\t')) i++; }
    bool eat(const char *t)
    {
        ws();
        size_t n = strlen(t);
        if (s.compare(i, n, t) == 0) {
            // do not split "<=" / "==" / "!=" / "&&" / "||"
            i += n;
            return true;
        }
        return false;
    }
    bool peek(const char *t) { ws(); return s.compare(i, strlen(t), t) == 0; }
    static V arith(char op, V a, V b)
    {
        if (a.k == V::INT && b.k == V::INT) { // integer arithmetic (truncating division!)
            switch (op) {
                case '+': return integer_(a.i + b.i);
                case '-': return integer_(a.i - b.i);
                case '*': return integer_(a.i * b.i);
                default:
                    if (b.i == 0) throw Syntax{"integer division by zero in the generated code"};
                    return integer_(a.i / b.i);
            }
        }
        a = toD(a);
        b = toD(b);
        if (a.exact() && b.exact()) {
            switch (op) {
                case '+': return rat(a.p * b.q + b.p * a.q, a.q * b.q);
                case '-': return rat(a.p * b.q - b.p * a.q, a.q * b.q);
                case '*': return rat(a.p * b.p, a.q * b.q);
                default:
                    if (b.p == 0) throw Syntax{"division by a zero constant"};
                    return rat(a.p * b.q, a.q * b.p);
            }
        }
        double x = a.asReal(), y = b.asReal();
        return real(op == '+' ? x + y : op == '-' ? x - y : op == '*' ? x * y : x / y);
    }
    static bool truth(const V &a) { return a.k == V::INT ? a.i != 0 : a.k == V::RAT ? a.p != 0 : a.d != 0.0; }
    static V cmp(const char *op, const V &a, const V &b)
    {
        double x = a.asReal(), y = b.asReal();
        bool r = !strcmp(op, "==") ? x == y : !strcmp(op, "!=") ? x != y : !strcmp(op, "<=") ? x <= y : !strcmp(op, "<") ? x < y : !strcmp(op, ">=") ? x >= y : x > y;
        return integer_(r);
    }
    V ternary()
    {
        V c = lor();
        if (eat("?")) {
            V a = ternary();
            if (!eat(":")) throw Syntax{"':' expected"};
            V b = ternary();
            if (truth(c))
                return a.k == V::INT && b.k != V::INT ? toD(a) : a;
            return b.k == V::INT && a.k != V::INT ? toD(b) : b;
        }
        return c;
    }
    V lor() { V a = land(); while (eat("||")) { V b = land(); a = integer_(truth(a) || truth(b)); } return a; }
    V land() { V a = equality(); while (eat("&&")) { V b = equality(); a = integer_(truth(a) && truth(b)); } return a; }
    V equality()
    {
        V a = relational();
        for (;;) {
            if (eat("==")) a = cmp("==", a, relational());
            else if (eat("!=")) a = cmp("!=", a, relational());
            else return a;
        }
    }
    V relational()
    {
        V a = additive();
        for (;;) {
            if (eat("<=")) a = cmp("<=", a, additive());
            else if (eat(">=")) a = cmp(">=", a, additive());
            else if (eat("<")) a = cmp("<", a, additive());
            else if (eat(">")) a = cmp(">", a, additive());
            else return a;
        }
    }
    V additive()
    {
        V a = multiplicative();
        for (;;) {
            if (eat("+")) a = arith('+', a, multiplicative());
            else if (eat("-")) a = arith('-', a, multiplicative());
            else return a;
        }
    }
    V multiplicative()
    {
        V a = unary();
        for (;;) {
            if (eat("*")) a = arith('*', a, unary());
            else if (eat("/")) a = arith('/', a, unary());
            else return a;
        }
    }
    V unary()
    {
        if (eat("-")) return arith('-', integer_(0), unary());
        if (eat("+")) return unary();
        if (peek("!") && !peek("!=")) { eat("!"); return integer_(!truth(unary())); }
        return primary();
    }
    V call(const std::string &f, std::vector<V> &a)
    {
        auto A = [&](size_t k) { if (k >= a.size()) throw Syntax{"missing argument of " + f}; return a[k].asReal(); };
        if (f == "sin") return real(ve::Sin(A(0)));
        if (f == "cos") return real(ve::Cos(A(0)));
        if (f == "tan") return real(ve::Sin(A(0)) / ve::Cos(A(0)));
        if (f == "exp") return real(ve::Exp(A(0)));
        if (f == "log") return real(ve::Log(A(0)));
        if (f == "sinh") return real((ve::Exp(A(0)) - ve::Exp(-A(0))) / 2.0);
        if (f == "cosh") return real((ve::Exp(A(0)) + ve::Exp(-A(0))) / 2.0);
        if (f == "tanh") return real((ve::Exp(A(0)) - ve::Exp(-A(0))) / (ve::Exp(A(0)) + ve::Exp(-A(0))));
        if (f == "atan") return real(ve::odd_fn("ATAN", ::atan, A(0)));
        if (f == "asin") return real(ve::odd_fn("ASIN", ::asin, A(0)));
        if (f == "erf") return real(ve::odd_fn("ERF", ::erf, A(0)));
        if (f == "acos") {
            if (a.size() == 1 && a[0].exact() && toD(a[0]).p == -toD(a[0]).q)
                return real(ve::c_pi()); // acos(-1) is how the printer writes pi
            return real(ve::c_pi() * verif_rational(1, 2) - ve::odd_fn("ASIN", ::asin, A(0)));
        }
        if (f == "sqrt") return real(a.size() == 1 && a[0].exact() ? ve::sqrt_of(A(0)) : ve::ipow(ve::root12_of(A(0)), 6));
        if (f == "cbrt") return real(ve::ipow(ve::root12_of(A(0)), 4));
        if (f == "fabs") { double u = A(0); return real(u < 0 ? -u : u); }
        if (f == "fmax") { double u = A(0), v = A(1); return real(u > v ? u : v); }
        if (f == "fmin") { double u = A(0), v = A(1); return real(u < v ? u : v); }
        if (f == "floor") return real(std::floor(A(0)));
        if (f == "ceil") return real(std::ceil(A(0)));
        if (f == "pow") {
            if (a.size() != 2) throw Syntax{"pow needs two arguments"};
            V e = a[1];
            if (e.k == V::INT || (e.k == V::RAT && e.q == 1)) // integral exponent: repeated multiplication
                return real(ve::ipow(A(0), e.k == V::INT ? e.i : e.p));
            if (e.k == V::RAT && 12 % e.q == 0) // pow(b, p/q) of a positive base through its 12th root
                return real(ve::ipow(ve::root12_of(A(0)), e.p * (12 / e.q)));
            throw Syntax{"pow with an exponent outside the interpreter's fragment"};
        }
        throw Syntax{"unknown function " + f};
    }
    V primary()
    {
        ws();
        if (eat("(")) {
            V v = ternary();
            if (!eat(")")) throw Syntax{"')' expected"};
            return v;
        }
        if (i < s.size() && (isdigit((unsigned char)s[i]) || s[i] == '.')) {
            size_t j = i;
            bool fl = false;
            long ip = 0, fp = 0, fq = 1;
            while (j < s.size() && isdigit((unsigned char)s[j])) ip = ip * 10 + (s[j++] - '0');
            if (j < s.size() && s[j] == '.') {
                fl = true;
                j++;
                while (j < s.size() && isdigit((unsigned char)s[j])) { fp = fp * 10 + (s[j++] - '0'); fq *= 10; }
            }
            if (j < s.size() && (s[j] == 'e' || s[j] == 'E')) throw Syntax{"exponent notation outside the interpreter's fragment"};
            if (j < s.size() && (s[j] == 'f' || s[j] == 'F' || s[j] == 'l' || s[j] == 'L')) { fl = true; j++; }
            i = j;
            return fl ? rat(ip * fq + fp, fq) : integer_(ip);
        }
        if (i < s.size() && (isalpha((unsigned char)s[i]) || s[i] == '_')) {
            size_t j = i;
            while (j < s.size() && (isalnum((unsigned char)s[j]) || s[j] == '_')) j++;
            std::string id = s.substr(i, j - i);
            i = j;
            if (eat("(")) {
                std::vector<V> args;
                if (!eat(")")) {
                    for (;;) {
                        args.push_back(ternary());
                        if (eat(")")) break;
                        if (!eat(",")) throw Syntax{"',' expected"};
                    }
                }
                return call(id, args);
            }
            if (id == "M_PI") return real(ve::c_pi());
            if (id == "M_E") return real(ve::c_e());
            auto it = env.val.find(id);
            if (it == env.val.end()) throw Syntax{"unknown identifier " + id};
            return real(it->second);
        }
        throw Syntax{"unexpected character in generated code"};
    }
    V run()
    {
        V v = ternary();
        ws();
        if (i != s.size()) throw Syntax{"trailing text in generated code"};
        return v;
    }
};
} // namespace ci

// (c89code()/c99code() are declared in printers.h but defined `inline` in codegen.cpp, i.e. not linkable: the printer classes are
// used directly)
static std::string emit(int pr, const Basic &e)
{
    if (pr == 0)
        return ccode(e);
    if (pr == 1) {
        C89CodePrinter p;
        return p.apply(e);
    }
    C99CodePrinter p;
    return p.apply(e);
}
static void compare_code(const std::string &code, double expect, ve::Env &env, const char *what)
{
    double got;
    try {
        ci::P p(code, env);
        got = p.run().asReal();
    } catch (ci::Syntax &e) {
        verif_note(("generated code outside the interpreter: " + e.msg + " in: " + code).c_str());
        verif_assert(false, "the generated C text is an expression of the supported C fragment");
        return;
    }
    verif_assert_req(got, expect, what);
}
extern "C" void harness_c15_recipes()
{
    verif_mode_real();
    Gen g;
    g.leaves = {L_X, L_Y, L_P, L_NUM};
    g.nums = {{2, 1}, {-1, 2}, {3, 1}, {2, 3}};
    g.unary = {O_NEG, O_POWI, O_POWQ, O_SQRT, O_SIN, O_COS, O_TAN, O_EXP, O_LOG, O_SINH, O_COSH, O_TANH, O_ATAN, O_ERF};
    g.binary = {O_ADD, O_SUB, O_MUL, O_DIV};
    g.ipows = {2, 3, -1, -2};
    g.qpows = {{1, 2}, {1, 3}, {3, 2}, {-1, 2}, {2, 3}};
    Recipe r;
    r.root = g.gen(r, (int)verif_param("depth", 2), "t");
    ve::Env env = ve::std_env();
    RCP<const Basic> e = build_or_skip(r, r.root);
    Dual ref = eval(r, r.root, env, "");
    std::string code;
    int pr = (int)verif_choice("printer", 3);
    try {
        code = emit(pr, *e);
    } catch (SymEngineException &) {
        verif_assume(false); // the printer refuses the expression: nothing is emitted
    }
    compare_code(code, ref.v, env, "the emitted C expression evaluates to the value of the expression");
    VERIF_END();
}
// relationals, Piecewise, max/min, abs, sign, constants
extern "C" void harness_c15_logic()
{
    verif_mode_real();
    ve::Env env;
    double xv = verif_real("x"), yv = verif_real("y");
    env.val["x"] = xv;
    env.val["y"] = yv;
    RCP<const Basic> x = symbol("x"), y = symbol("y");
    RCP<const Basic> e;
    double ref;
    switch (verif_choice("k", 10)) {
        case 0: e = max({x, y, integer(1)}); ref = (xv > yv ? xv : yv) > 1.0 ? (xv > yv ? xv : yv) : 1.0; break;
        case 1: e = min({x, y}); ref = xv < yv ? xv : yv; break;
        case 2: e = sign(x); ref = xv > 0 ? 1.0 : (xv < 0 ? -1.0 : 0.0); break;
        case 3: e = abs(sub(x, y)); ref = xv - yv < 0 ? yv - xv : xv - yv; break;
        case 4: e = piecewise({{x, Lt(x, y)}, {mul(integer(2), y), boolTrue}}); ref = xv < yv ? xv : 2.0 * yv; break;
        case 5: e = piecewise({{div(x, integer(3)), Le(x, integer(1))}, {pow(y, integer(2)), Ne(y, x)}, {integer(7), boolTrue}}); ref = xv <= 1.0 ? xv / 3.0 : (yv != xv ? yv * yv : 7.0); break;
        case 6: e = mul(pi, x); ref = ve::c_pi() * xv; break;
        case 7: e = add(E, div(x, integer(2))); ref = ve::c_e() + xv / 2.0; break;
        case 8: e = div(add(integer(1), x), add(integer(3), pow(y, integer(2)))); ref = (1.0 + xv) / (3.0 + yv * yv); break;
        default: e = mul(Rational::from_two_ints(2, 3), pow(x, integer(-3))); verif_assume(xv != 0); ref = verif_rational(2, 3) / (xv * xv * xv); break;
    }
    int pr = (int)verif_choice("printer", 3);
    std::string code = emit(pr, *e);
    compare_code(code, ref, env, "the emitted C expression evaluates to the value of the expression");
    VERIF_END();
}
