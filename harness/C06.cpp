// C06 — mixed-kind number arithmetic: commutativity, oo/nan rules, float contagion
#include "vsym.h"
using namespace vs;

static bool g_tableInts = false; // quick tier, partner is a float: exact payloads come from a small table (no int->float solver work)
static RCP<const Integer> tab_int(const std::string &name)
{
    static const long tab[] = {-2, -1, 0, 1, 3};
    return integer(tab[verif_choice(name.c_str(), 5)]);
}
static RCP<const Number> operand(int k, const std::string &tag)
{
    long n = verif_param("nmax", 6);
    if (g_tableInts && k == K_INT)
        return tab_int(nm(tag, "ti"));
    if (g_tableInts && k == K_RAT)
        return Rational::from_two_ints(*tab_int(nm(tag, "tn")), *integer(1 + (long)verif_choice(nm(tag, "td").c_str(), 3)));
    if (g_tableInts && k == K_CPLX)
        return Complex::from_two_nums(*Rational::from_two_ints(*tab_int(nm(tag, "tre")), *integer(1 + (long)verif_choice(nm(tag, "tgd").c_str(), 2))), *tab_int(nm(tag, "tim")));
    if (k == K_CPLX) { // Gaussian integers / halves
        RCP<const Integer> re = sym_integer(nm(tag, "re"), -n, n, true), im = sym_integer(nm(tag, "im"), -n, n, true);
        RCP<const Integer> d = integer(1 + (long)verif_choice(nm(tag, "gd").c_str(), 2));
        return Complex::from_two_nums(*Rational::from_two_ints(*re, *d), *Rational::from_two_ints(*im, *d));
    }
    if ((k == K_DBL || k == K_CDBL) && verif_param("dbl_table", 0)) {
        // quick tier: representative doubles (the property's finite pair table) instead of all 2^64 patterns per component
        static const double tab[] = {0.0, -0.0, 1.0, -2.5, 1e300, __builtin_inf(), -__builtin_inf(), __builtin_nan("")};
        double re = tab[verif_choice(nm(tag, "fsel").c_str(), 8)];
        if (k == K_DBL)
            return real_double(re);
        double im = tab[verif_choice(nm(tag, "fisel").c_str(), 8)];
        return complex_double(std::complex<double>(re, im));
    }
    return sym_number(k, tag, n, 3, true);
}
struct Res {
    RCP<const Basic> v;
    bool threw = false;
};
template <class F>
static Res tryop(F f)
{
    Res r;
    try {
        r.v = f();
    } catch (SymEngineException &) {
        r.threw = true;
    }
    return r;
}
static bool same(const Res &x, const Res &y)
{
    if (x.threw || y.threw)
        return x.threw == y.threw;
    if (is_nan_double(*x.v) && is_nan_double(*y.v))
        return true; // NaN payloads are not compared
    if (is_a<ComplexDouble>(*x.v) && is_a<ComplexDouble>(*y.v)) {
        // compare parts, treating NaN parts as equal
        std::complex<double> p = down_cast<const ComplexDouble &>(*x.v).i, q = down_cast<const ComplexDouble &>(*y.v).i;
        bool re = (p.real() == q.real()) || (p.real() != p.real() && q.real() != q.real());
        bool im = (p.imag() == q.imag()) || (p.imag() != p.imag() && q.imag() != q.imag());
        return re && im;
    }
    return eq(*x.v, *y.v);
}
static bool is_exact(const Basic &b)
{
    return is_a<Integer>(b) || is_a<Rational>(b) || is_a<Complex>(b);
}
static bool finite_float(const Number &n)
{
    if (is_a<RealDouble>(n)) {
        double d = down_cast<const RealDouble &>(n).i;
        return d == d && !std::isinf(d);
    }
    if (is_a<ComplexDouble>(n)) {
        std::complex<double> c = down_cast<const ComplexDouble &>(n).i;
        return c.real() == c.real() && c.imag() == c.imag() && !std::isinf(c.real()) && !std::isinf(c.imag());
    }
    return false;
}
static bool is_finite_num(const Number &n)
{
    return is_exact(n) || finite_float(n);
}
// Number-level double dispatch
extern "C" void harness_c06_number()
{
    int ka = (int)verif_choice("ka", K_COUNT), kb = (int)verif_choice("kb", K_COUNT);
    g_tableInts = verif_param("dbl_table", 0) && (ka == K_DBL || ka == K_CDBL || kb == K_DBL || kb == K_CDBL);
    RCP<const Number> a = operand(ka, "a"), b = operand(kb, "b");
    bool floatzero = (finite_float(*a) && a->is_zero() && is_exact(*b)) || (finite_float(*b) && b->is_zero() && is_exact(*a));
    Res s1 = tryop([&] { return a->add(*b); }), s2 = tryop([&] { return b->add(*a); });
    Res p1 = tryop([&] { return a->mul(*b); }), p2 = tryop([&] { return b->mul(*a); });
    bool k1 = (ka == K_INF && kb == K_NAN) || (ka == K_NAN && kb == K_INF) ? verif_known("C06/infty-op-nan", true) : false;
    verif_assert(same(s1, s2), "a + b == b + a (Number::add)");
    verif_assert(same(p1, p2), "a * b == b * a (Number::mul)");
    // nan absorbs every operation
    if (ka == K_NAN || kb == K_NAN) {
        Res d = tryop([&] { return a->div(*b); }), m = tryop([&] { return a->sub(*b); });
        verif_assert(!s1.threw && is_a<NaN>(*s1.v) && !s2.threw && is_a<NaN>(*s2.v), "nan + x is nan");
        verif_assert(!p1.threw && is_a<NaN>(*p1.v) && !p2.threw && is_a<NaN>(*p2.v), "nan * x is nan");
        verif_assert(!d.threw && is_a<NaN>(*d.v), "x / nan and nan / x are nan");
        verif_assert(!m.threw && is_a<NaN>(*m.v), "x - nan and nan - x are nan");
    }
    if (k1)
        verif_known_end();
    // infinities
    if (ka == K_INF && kb == K_INF) {
        const Infty &x = down_cast<const Infty &>(*a), &y = down_cast<const Infty &>(*b);
        if ((x.is_positive_infinity() && y.is_negative_infinity()) || (x.is_negative_infinity() && y.is_positive_infinity()))
            verif_assert(!s1.threw && is_a<NaN>(*s1.v), "oo + -oo is nan");
    }
    if (ka == K_INF && is_exact(*b) && b->is_zero())
        verif_assert(!p1.threw && is_a<NaN>(*p1.v) && !p2.threw && is_a<NaN>(*p2.v), "0 * oo is nan");
    if (ka == K_INF && (kb == K_INT || kb == K_RAT) && !b->is_zero()) {
        const Infty &x = down_cast<const Infty &>(*a);
        if (!x.is_unsigned_infinity()) {
            bool neg = x.is_negative_infinity() != b->is_negative();
            verif_assert(!p2.threw && is_a<Infty>(*p2.v) && (neg ? down_cast<const Infty &>(*p2.v).is_negative_infinity() : down_cast<const Infty &>(*p2.v).is_positive_infinity()),
                         "finite nonzero factor keeps or flips the direction of an infinity by its sign");
            verif_assert(!p1.threw && eq(*p1.v, *p2.v), "oo * x == x * oo");
        }
    }
    // nonzero exact / exact zero is zoo
    if (is_exact(*a) && is_exact(*b) && b->is_zero() && !a->is_zero()) {
        Res d = tryop([&] { return a->div(*b); });
        verif_assert(!d.threw && is_a<Infty>(*d.v) && down_cast<const Infty &>(*d.v).is_unsigned_infinity(), "nonzero exact / exact zero is zoo");
    }
    // float contagion
    if ((finite_float(*a) && is_finite_num(*b)) || (finite_float(*b) && is_finite_num(*a))) {
        Res d = tryop([&] { return a->sub(*b); });
        verif_assert(!s1.threw && !is_exact(*s1.v) && !s2.threw && !is_exact(*s2.v), "finite float + finite number is not an exact number");
        verif_assert(!d.threw && !is_exact(*d.v), "finite float - finite number is not an exact number");
        bool exactzero = (is_exact(*a) && a->is_zero()) || (is_exact(*b) && b->is_zero());
        bool kz = exactzero && verif_known("C06/exact-zero-times-float", true);
        verif_assert(!p1.threw && !is_exact(*p1.v) && !p2.threw && !is_exact(*p2.v), "finite float * finite number is not an exact number");
        if (kz)
            verif_known_end();
    }
    (void)floatzero;
    VERIF_END();
}
// the same through add()/mul() on expressions
extern "C" void harness_c06_api()
{
    int ka = (int)verif_choice("ka", K_COUNT), kb = (int)verif_choice("kb", K_COUNT);
    g_tableInts = verif_param("dbl_table", 0) && (ka == K_DBL || ka == K_CDBL || kb == K_DBL || kb == K_CDBL);
    // pairs of exact non-integers are the subject of C05 (and of harness_c06_number); here at least one operand is an
    // integer, a float, an infinity or nan
    verif_assume(!((ka == K_RAT || ka == K_CPLX) && (kb == K_RAT || kb == K_CPLX)));
    RCP<const Number> a = operand(ka, "a"), b = operand(kb, "b");
    bool k1 = (ka == K_INF && kb == K_NAN) || (ka == K_NAN && kb == K_INF) ? verif_known("C06/infty-op-nan", true) : false;
    // a floating zero operand (whatever the partner is), or a floating zero sum
    bool fz = (finite_float(*a) && a->is_zero()) || (finite_float(*b) && b->is_zero());
    if (!fz && ((finite_float(*a) && is_finite_num(*b)) || (finite_float(*b) && is_finite_num(*a)))) {
        // the Number-level sum is a floating zero (e.g. -1 + 1.0): same defect, the zero coefficient is dropped
        RCP<const Number> ns = a->add(*b);
        fz = (finite_float(*ns) && ns->is_zero()) || (finite_float(*a) && a->is_zero()) || (finite_float(*b) && b->is_zero());
    }
    bool exactzero = ((is_exact(*a) && a->is_zero()) && finite_float(*b)) || ((is_exact(*b) && b->is_zero()) && finite_float(*a));
    bool k2 = fz ? verif_known("C06/float-zero-dropped", true) : (exactzero ? verif_known("C06/exact-zero-times-float", true) : false);
    Res s1 = tryop([&] { return add(a, b); }), s2 = tryop([&] { return add(b, a); });
    Res p1 = tryop([&] { return mul(a, b); }), p2 = tryop([&] { return mul(b, a); });
    verif_assert(same(s1, s2), "add(a,b) == add(b,a)");
    verif_assert(same(p1, p2), "mul(a,b) == mul(b,a)");
    if ((finite_float(*a) && is_finite_num(*b)) || (finite_float(*b) && is_finite_num(*a))) {
        verif_assert(!s1.threw && !is_exact(*s1.v) && !s2.threw && !is_exact(*s2.v), "add(): finite float + finite number is not an exact number");
        verif_assert(!p1.threw && !is_exact(*p1.v) && !p2.threw && !is_exact(*p2.v), "mul(): finite float * finite number is not an exact number");
    }
    if (ka == K_NAN || kb == K_NAN) {
        verif_assert(!s1.threw && is_a<NaN>(*s1.v) && !s2.threw && is_a<NaN>(*s2.v), "add(): nan absorbs");
        verif_assert(!p1.threw && is_a<NaN>(*p1.v) && !p2.threw && is_a<NaN>(*p2.v), "mul(): nan absorbs");
    }
    if (k1 || k2)
        verif_known_end();
    VERIF_END();
}
