// C11 — substitution preserves value and is cache-independent
#include "vrecipe.h"
#include <symengine/subs.h>
using namespace vr;

extern "C" void harness_c11_subs()
{
    Gen g;
    g.leaves = {L_X, L_Y, L_P, L_NUM};
    g.nums = {{2, 1}, {-1, 2}, {3, 1}};
    g.unary = {O_NEG, O_POWI, O_POWQ, O_SIN, O_COS, O_EXP, O_LOG, O_ATAN};
    g.binary = {O_ADD, O_SUB, O_MUL, O_DIV};
    g.ipows = {2, 3, -1};
    g.qpows = {{1, 2}, {2, 3}};
    g.symB = verif_param("symB", 3);
    Recipe r;
    r.root = g.gen(r, (int)verif_param("depth", 2), "t");
    ve::Env env = ve::std_env();
    RCP<const Basic> e = build_or_skip(r, r.root);
    RCP<const Basic> x = symbol("x"), y = symbol("y"), z = symbol("z");
    // replacement value for x: a number, the other symbol, or a small expression
    int vk = (int)verif_choice("vkind", 4);
    RCP<const Basic> v;
    double vv;
    if (vk == 0) {
        RCP<const Integer> c = vs::sym_integer("v", -3, 3);
        v = c;
        vv = ve::num_value(*c);
    } else if (vk == 1) {
        v = y;
        vv = env.val["y"];
    } else if (vk == 2) {
        v = add(y, one);
        vv = env.val["y"] + 1.0;
    } else {
        v = mul(integer(2), pow(y, integer(2)));
        vv = 2.0 * env.val["y"] * env.val["y"];
    }
    map_basic_basic m;
    m[x] = v;
    RCP<const Basic> s = e->subs(m);
    ve::Env env2 = env;
    env2.val["x"] = vv;
    Dual ref = eval(r, r.root, env2, "");
    try {
        verif_assert_req(ve::ev(*s, env), ref.v, "subs(e, {x: v}) has the value of e with x replaced by v");
    } catch (ve::Unsupported &u) {
        verif_assert(false, "oracle cannot interpret a node of the result");
    }
    verif_assert(eq(*subs(e, m, false), *s), "substitution with and without the cache gives identical results");
    map_basic_basic mz;
    mz[z] = v;
    verif_assert(eq(*e->subs(mz), *e), "substituting a symbol that does not occur returns an equal expression");
    map_basic_basic mid;
    mid[x] = x;
    mid[y] = y;
    verif_assert(eq(*e->subs(mid), *e), "the identity mapping returns an equal expression");
    // the other substitution functions agree on derivative-free expressions
    verif_assert(eq(*xreplace(e, m), *s), "xreplace agrees with subs");
    verif_assert(eq(*msubs(e, m), *s), "msubs agrees with subs");
    verif_assert(eq(*ssubs(e, m), *s), "ssubs agrees with subs");
    // two keys at once (simultaneous): x -> y, y -> x swaps the symbols
    map_basic_basic sw;
    sw[x] = y;
    sw[y] = x;
    ve::Env env3 = env;
    env3.val["x"] = env.val["y"];
    env3.val["y"] = env.val["x"];
    Dual rs = eval(r, r.root, env3, "");
    try {
        verif_assert_req(ve::ev(*e->subs(sw), env), rs.v, "simultaneous substitution {x: y, y: x} swaps the symbols");
    } catch (ve::Unsupported &u) {
        verif_assert(false, "oracle cannot interpret a node of the result");
    }
    VERIF_END();
}
