// C18 — parsing arbitrary input is safe, and parser reuse is stateless
#include "vsym.h"
#include <symengine/parser.h>
#include <symengine/parser/parser.h>
#include <symengine/parser/sbml/sbml_parser.h>
#include <symengine/printers.h>
using namespace vs;

// outcome of a parse: 0 = value, 1 = library exception; anything else (crash, foreign exception, memory error) is caught by the engine
static int try_parse(Parser &p, const std::string &s, RCP<const Basic> &out)
{
    try {
        out = p.parse(s);
        return 0;
    } catch (SymEngineException &) {
        return 1;
    }
}
// every byte string of length <= N with fully symbolic bytes
extern "C" void harness_c18_bytes()
{
    unsigned n = (unsigned)verif_param("len", 2);
    char buf[8] = {0};
    verif_bytes(buf, n, "s");
    for (unsigned i = 0; i < n; i++)
        verif_assume(buf[i] != 0); // the API takes a NUL-terminated / std::string input; length is exactly n
    std::string s(buf, n);
    Parser p;
    RCP<const Basic> r;
    int o = try_parse(p, s, r);
    if (o == 0) {
        verif_assert(!r.is_null(), "a successful parse returns an expression");
        // the result is usable: hashing and comparing it with itself must be safe
        verif_assert(eq(*r, *r), "the parsed expression equals itself");
        (void)r->hash();
    }
    // reuse after this (possibly failed) parse: same result as a fresh parser
    RCP<const Basic> a, b;
    Parser fresh;
    int oa = try_parse(p, "2*x + y**2", a), ob = try_parse(fresh, "2*x + y**2", b);
    verif_assert(oa == 0 && ob == 0 && eq(*a, *b), "a reused parser behaves like a fresh one");
    VERIF_END();
}
// class alphabet: one representative of each tokenizer character class plus the characters of keywords
extern "C" void harness_c18_alphabet()
{
    static const char alpha[] = "x1.e+-*/^(),<>=!~&| \t_I@#$\"'[]{}:;?%\\\x80\xff";
    unsigned n = (unsigned)verif_param("len", 3), na = sizeof(alpha) - 1;
    std::string s;
    for (unsigned i = 0; i < n; i++)
        s.push_back(alpha[verif_choice(("c" + std::to_string(i)).c_str(), na)]);
    Parser p;
    RCP<const Basic> r;
    int o = try_parse(p, s, r);
    if (o == 0)
        verif_assert(!r.is_null() && eq(*r, *r), "a successful parse returns a usable expression");
    RCP<const Basic> r2;
    int o2 = try_parse(p, s, r2);
    verif_assert(o2 == o && (o != 0 || eq(*r, *r2)), "parsing the same input twice with one parser gives the same outcome");
    VERIF_END();
}
// grammar-seeded strings with two fully symbolic byte positions
extern "C" void harness_c18_seeded()
{
    static const char *seeds[] = {"2*x+y", "sin(x)", "x**2/3", "(a<b)&c", "1e3*x", "f(x,y)", "-x^-2", "pi*I+E", "Piecewise((x,x<1),(y,True))", "3x y", "x!=y|z"};
    unsigned si = (unsigned)verif_choice("seed", sizeof(seeds) / sizeof(seeds[0]));
    std::string s = seeds[si];
    unsigned p1 = (unsigned)verif_choice("pos1", 6) % s.size();
    char c[2];
    verif_bytes(c, 1, "b");
    verif_assume(c[0] != 0);
    s[p1] = c[0];
    Parser p;
    RCP<const Basic> r;
    int o = try_parse(p, s, r);
    if (o == 0)
        verif_assert(!r.is_null() && eq(*r, *r), "a successful parse returns a usable expression");
    VERIF_END();
}
// SBML parser
extern "C" void harness_c18_sbml()
{
    unsigned n = (unsigned)verif_param("len", 2);
    char buf[8] = {0};
    verif_bytes(buf, n, "s");
    for (unsigned i = 0; i < n; i++)
        verif_assume(buf[i] != 0);
    std::string s(buf, n);
    RCP<const Basic> r;
    try {
        r = parse_sbml(s);
        verif_assert(!r.is_null() && eq(*r, *r), "a successful parse_sbml returns a usable expression");
    } catch (SymEngineException &) {
    }
    VERIF_END();
}
