// C09 — expand is value-preserving, complete, idempotent and decides polynomial identity
#include "veval.h"
using namespace vs;

static RCP<const Basic> X() { return symbol("x"); }
static RCP<const Basic> Y() { return symbol("y"); }

// no product containing a sum, no positive integer power of a sum (outside function arguments)
static bool expanded(const Basic &b)
{
    if (is_a<Mul>(b)) {
        for (auto &a : b.get_args())
            if (is_a<Add>(*a))
                return false;
    }
    if (is_a<Pow>(b)) {
        vec_basic a = b.get_args();
        if (is_a<Add>(*a[0]) && is_a<Integer>(*a[1]) && down_cast<const Integer &>(*a[1]).is_positive())
            return false;
    }
    if (is_a<Add>(b) || is_a<Mul>(b) || is_a<Pow>(b))
        for (auto &a : b.get_args())
            if (!expanded(*a))
                return false;
    return true;
}
struct Lin { // c0 + c1*x + c2*y (+ c3*f(x)) with symbolic integer coefficients
    RCP<const Basic> e;
    double v;
};
// coefficient slot: symbolic integer in [-B,B], or (enumerated) one of {-1, 0, 2} so that products of three coefficients stay cheap
static RCP<const Integer> coef(const std::string &name, long B, bool symbolic)
{
    if (symbolic)
        return sym_integer(name, -B, B);
    static const long vals[] = {-1, 0, 2};
    return integer(vals[verif_choice(name.c_str(), 3)]);
}
static Lin lin(const std::string &tag, int nterms, long B, ve::Env &env, bool opaque, bool symbolic = true)
{
    RCP<const Integer> c0 = coef(nm(tag, "c0"), B, symbolic), c1 = coef(nm(tag, "c1"), B, symbolic);
    RCP<const Basic> e = add(c0, mul(c1, X()));
    double v = ve::num_value(*c0) + ve::num_value(*c1) * env.val["x"];
    if (nterms >= 3) {
        RCP<const Integer> c2 = coef(nm(tag, "c2"), B, symbolic);
        RCP<const Basic> t = opaque ? (RCP<const Basic>)function_symbol("f", X()) : Y();
        e = add(e, mul(c2, t));
        v = v + ve::num_value(*c2) * (opaque ? env.fsym["f(x)"] : env.val["y"]);
    }
    return {e, v};
}
extern "C" void harness_c09_value()
{
    long B = verif_param("B", 4);
    ve::Env env;
    env.val["x"] = verif_real("x");
    env.val["y"] = verif_real("y");
    env.fsym["f(x)"] = verif_real("fx");
    int shape = verif_param("shape", -1) >= 0 ? (int)verif_param("shape", -1) : (int)verif_choice("shape", 6);
    RCP<const Basic> e;
    double v;
    bool oppositeFactors = false;
    switch (shape) {
        case 0: { // (l1)^k, k = 2..4
            int k = 2 + (int)verif_choice("k", verif_param("kmax", 3) - 1);
            Lin a = lin("a", 3, B, env, false);
            e = pow(a.e, integer(k));
            v = ve::ipow(a.v, k);
            break;
        }
        case 1: { // l1 * l2
            Lin a = lin("a", 3, B, env, false), b = lin("b", 2, B, env, false);
            e = mul(a.e, b.e);
            v = a.v * b.v;
            break;
        }
        case 2: { // l1^2 * l2 with an opaque function atom
            Lin a = lin("a", 3, B, env, true), b = lin("b", 2, B, env, false, false);
            e = mul(pow(a.e, integer(2)), b.e);
            v = a.v * a.v * b.v;
            break;
        }
        case 3: { // c * (l1 * l2) + l3^2
            Lin a = lin("a", 2, B, env, false), b = lin("b", 2, B, env, false), c = lin("c", 2, B, env, false);
            RCP<const Integer> k = sym_integer("k", -B, B);
            e = add(mul(k, mul(a.e, b.e)), pow(c.e, integer(2)));
            v = ve::num_value(*k) * a.v * b.v + c.v * c.v;
            break;
        }
        case 4: { // negative power: l1 * l2^-1 stays a quotient; (l1*l2)^-2
            Lin a = lin("a", 2, B, env, false), b = lin("b", 2, B, env, false);
            verif_assume(a.v != 0 && b.v != 0);
            oppositeFactors = eq(*add(a.e, b.e), *zero);
            e = pow(mul(a.e, b.e), integer(-2));
            v = 1.0 / (a.v * b.v * a.v * b.v);
            break;
        }
        default: { // rational coefficients: (l1/2 + l2/3)^2
            Lin a = lin("a", 2, B, env, false), b = lin("b", 2, B, env, false);
            e = pow(add(div(a.e, integer(2)), div(b.e, integer(3))), integer(2));
            double t = a.v / 2.0 + b.v / 3.0;
            v = t * t;
            break;
        }
    }
    RCP<const Basic> r = expand(e);
    verif_assert_req(ve::ev(*r, env), v, "expand(e) has the value of e");
    verif_assert_req(ve::ev(*e, env), v, "the unexpanded construction has the value of the recipe");
    verif_assert(expanded(*r), "expand(e) contains no product or positive power of a sum");
    // known finding: l**-2 * (-l)**-2 expands to (l^2 expanded)**-2, whose square a second expand multiplies out
    bool known = oppositeFactors && verif_known("C09/expand-not-idempotent-merged-negative-powers", true);
    verif_assert(eq(*expand(r), *r), "expand is idempotent");
    if (known)
        verif_known_end();
    VERIF_END();
}
// multinomial path (powers >= 3 of a sum): a bare symbol next to products containing it, unit coefficients, all real x, y, z
extern "C" void harness_c09_multinomial()
{
    ve::Env env;
    double xv = verif_real("x"), yv = verif_real("y"), zv = verif_real("z");
    env.val["x"] = xv;
    env.val["y"] = yv;
    env.val["z"] = zv;
    RCP<const Basic> Z = symbol("z");
    RCP<const Basic> terms[] = {X(), Z, mul(X(), Z), mul(Y(), Z), mul(X(), Y()), Y()};
    double tv[] = {xv, zv, xv * zv, yv * zv, xv * yv, yv};
    unsigned mask = 3 + (unsigned)verif_choice("mask", 61); // 3..63
    verif_assume((mask & (mask - 1)) != 0);                 // at least two terms
    RCP<const Basic> sum = zero;
    double sv = 0.0;
    for (int i = 0; i < 6; i++)
        if (mask & (1u << i)) {
            sum = add(sum, terms[i]);
            sv = sv + tv[i];
        }
    int k = 3 + (int)verif_choice("k", verif_param("kn", 1));
    RCP<const Basic> e = pow(sum, integer(k)), r = expand(e);
    verif_assert_req(ve::ev(*r, env), ve::ipow(sv, k), "expand(sum**k) has the value of sum**k");
    verif_assert(expanded(*r), "expand(e) contains no product or positive power of a sum");
    verif_assert(eq(*expand(mul(expand(pow(sum, integer(k - 1))), sum)), *r), "expand(s**k) == expand(expand(s**(k-1)) * s)");
    VERIF_END();
}
// identity decision: (a x + b)(c x + d) against e x^2 + f x + g with symbolic integer coefficients
extern "C" void harness_c09_identity()
{
    long B = verif_param("B", 3);
    // a and c are enumerated (one path per value) so that every comparison of coefficients is linear in the symbolic b, d, e*
    RCP<const Integer> a = integer((long)verif_choice("a", 2 * B + 1) - B), c = integer((long)verif_choice("c", 2 * B + 1) - B);
    RCP<const Integer> b = sym_integer("b", -B, B), d = sym_integer("d", -B, B);
    RCP<const Integer> e2 = sym_integer("e2", -B * B, B * B), e1 = sym_integer("e1", -2 * B * B, 2 * B * B), e0 = sym_integer("e0", -B * B, B * B);
    RCP<const Basic> x = X();
    RCP<const Basic> p = mul(add(mul(a, x), b), add(mul(c, x), d));
    RCP<const Basic> q = add(add(mul(e2, pow(x, integer(2))), mul(e1, x)), e0);
    bool same = eq(*expand(p), *expand(q));
    integer_class ac = a->as_integer_class() * c->as_integer_class(), adbc = a->as_integer_class() * d->as_integer_class() + b->as_integer_class() * c->as_integer_class(),
                  bd = b->as_integer_class() * d->as_integer_class();
    bool polyeq = ac == e2->as_integer_class() && adbc == e1->as_integer_class() && bd == e0->as_integer_class();
    verif_assert(same == polyeq, "expand(p) == expand(q) exactly when p and q are equal polynomials");
    VERIF_END();
}
