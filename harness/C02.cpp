// C02 — __cmp__ is a strict total order consistent with eq; RCPBasicKeyLess is a strict weak order
#include "vuniverse.h"
using namespace vu;

static int cmp3(const Basic &a, const Basic &b)
{
    int c = a.__cmp__(b);
    verif_assert(c == -1 || c == 0 || c == 1, "__cmp__ returns only -1, 0, 1");
    return c;
}
// same-template pairs (and all number-kind pairs): range, consistency with eq, antisymmetry
extern "C" void harness_c02_pairs()
{
    int lo = (int)verif_param("tlo", 0), hi = (int)verif_param("thi", T_COUNT);
    int ta = lo + (int)verif_choice("ta", hi - lo);
    int tb = ta;
    if (ta <= T_NAN && verif_param("numcross", 1))
        tb = (int)verif_choice("tb", T_NAN + 1);
    RCP<const Basic> a = build(ta, "a"), b = build(tb, "b");
    bool nanpair = is_nan_double(*a) || is_nan_double(*b);
    bool known = nanpair && verif_known("C02/nan-double-order", true);
    int ab = cmp3(*a, *b), ba = cmp3(*b, *a);
    verif_assert((ab == 0) == eq(*a, *b), "cmp(a,b) == 0 exactly when eq(a,b)");
    verif_assert(ab == -ba, "cmp(a,b) == -cmp(b,a)");
    RCPBasicKeyLess less;
    verif_assert(!(less(a, b) && less(b, a)), "RCPBasicKeyLess is asymmetric");
    verif_assert(eq(*a, *b) == (!less(a, b) && !less(b, a)), "RCPBasicKeyLess equivalence is eq");
    if (known)
        verif_known_end();
    VERIF_END();
}
// triples inside one template family: transitivity
extern "C" void harness_c02_triples()
{
    int lo = (int)verif_param("tlo", 0), hi = (int)verif_param("thi", T_COUNT);
    int t = lo + (int)verif_choice("t", hi - lo);
    verif_assume(!((verif_param("skipmask", 0) >> t) & 1)); // quick tier: templates whose triples are solver-expensive
    RCP<const Basic> a = build(t, "a"), b = build(t, "b"), c = build(t, "c");
    bool nanany = is_nan_double(*a) || is_nan_double(*b) || is_nan_double(*c);
    bool known = nanany && verif_known("C02/nan-double-order", true);
    int ab = a->__cmp__(*b), bc = b->__cmp__(*c), ac = a->__cmp__(*c);
    if (ab < 0 && bc < 0)
        verif_assert(ac < 0, "cmp is transitive");
    if (ab == 0 && bc == 0)
        verif_assert(ac == 0, "cmp equality is transitive");
    if (ab == 0)
        verif_assert(bc == ac, "equal elements compare alike");
    RCPBasicKeyLess less;
    if (less(a, b) && less(b, c))
        verif_assert(less(a, c), "RCPBasicKeyLess is transitive");
    if (known)
        verif_known_end();
    VERIF_END();
}
// mixed number kinds: triples across kinds (type-code order must be consistent)
extern "C" void harness_c02_numtriples()
{
    int ta = (int)verif_choice("ta", T_NAN + 1), tb = (int)verif_choice("tb", T_NAN + 1), tc = (int)verif_choice("tc", T_NAN + 1);
    verif_assume(!(ta == tb && tb == tc));
    RCP<const Basic> a = build(ta, "a"), b = build(tb, "b"), c = build(tc, "c");
    bool nanany = is_nan_double(*a) || is_nan_double(*b) || is_nan_double(*c);
    bool known = nanany && verif_known("C02/nan-double-order", true);
    int ab = a->__cmp__(*b), bc = b->__cmp__(*c), ac = a->__cmp__(*c);
    if (ab < 0 && bc < 0)
        verif_assert(ac < 0, "cmp is transitive across number kinds");
    if (known)
        verif_known_end();
    VERIF_END();
}
// ordered containers behave as sets keyed by equality, independent of insertion order
extern "C" void harness_c02_setorder()
{
    int lo = (int)verif_param("tlo", 0), hi = (int)verif_param("thi", T_COUNT);
    int t = lo + (int)verif_choice("t", hi - lo);
    verif_assume(!((verif_param("skipmask", 0) >> t) & 1)); // quick tier: templates whose triples are solver-expensive
    RCP<const Basic> a = build(t, "a"), b = build(t, "b"), c = build(t, "c");
    bool nanany = is_nan_double(*a) || is_nan_double(*b) || is_nan_double(*c);
    bool known = nanany && verif_known("C02/nan-double-order", true);
    set_basic s1, s2;
    s1.insert(a);
    s1.insert(b);
    s1.insert(c);
    s2.insert(c);
    s2.insert(a);
    s2.insert(b);
    verif_assert(s1.size() == s2.size(), "set size independent of insertion order");
    unsigned distinct = 1 + (eq(*a, *b) ? 0 : 1) + ((eq(*c, *a) || eq(*c, *b)) ? 0 : 1);
    verif_assert(s1.size() == distinct, "set_basic is keyed by eq");
    auto i1 = s1.begin();
    auto i2 = s2.begin();
    for (; i1 != s1.end() && i2 != s2.end(); ++i1, ++i2)
        verif_assert(eq(**i1, **i2), "set iteration order independent of insertion order");
    if (known)
        verif_known_end();
    VERIF_END();
}
