// C03 — every expression the API returns is in canonical form (assertion build never aborts) — dedicated shapes; the arithmetic,
// expand, diff and subs harnesses of C04, C07, C09, C10, C11 are re-run under the assertion configuration by the registry.
#include "vsym.h"
#include <symengine/logic.h>
#include <symengine/sets.h>
using namespace vs;

// independent structural validator of the documented invariants
static void validate(const Basic &b)
{
    if (is_a<Rational>(b)) {
        const rational_class &q = down_cast<const Rational &>(b).as_rational_class();
        verif_assert(get_den(q) > 1, "a Rational has denominator > 1");
    }
    if (is_a<Complex>(b))
        verif_assert(get_num(down_cast<const Complex &>(b).imaginary_) != 0, "a Complex has a non-zero imaginary part");
    if (is_a<Add>(b)) {
        const Add &a = down_cast<const Add &>(b);
        verif_assert(a.get_dict().size() + (a.get_coef()->is_zero() ? 0 : 1) >= 2, "a sum has at least two terms");
        for (auto &kv : a.get_dict()) {
            verif_assert(!is_a_Number(*kv.first), "no numeric key in a sum");
            verif_assert(!kv.second->is_zero(), "no zero term in a sum");
            verif_assert(!is_a<Add>(*kv.first), "no nested sum as a key");
        }
    }
    if (is_a<Mul>(b)) {
        const Mul &m = down_cast<const Mul &>(b);
        verif_assert(!m.get_coef()->is_zero(), "a product has a non-zero coefficient");
        for (auto &kv : m.get_dict()) {
            verif_assert(!(is_a<Integer>(*kv.first) && is_a<Integer>(*kv.second)), "no integer power of an integer inside a product");
            verif_assert(!(is_a_Number(*kv.second) && down_cast<const Number &>(*kv.second).is_zero()), "no zero exponent in a product");
            verif_assert(!is_a<Mul>(*kv.first) || !is_a<Integer>(*kv.second), "no integer power of a product inside a product");
        }
    }
    if (is_a<Pow>(b)) {
        vec_basic a = b.get_args();
        verif_assert(!(is_a<Integer>(*a[1]) && is_a<Mul>(*a[0])), "no integer power of a product");
        verif_assert(!(is_a_Number(*a[1]) && down_cast<const Number &>(*a[1]).is_zero()), "no zero exponent");
        verif_assert(!(is_a<Integer>(*a[0]) && is_a<Integer>(*a[1])), "no integer power of an integer");
    }
    for (auto &a : b.get_args())
        validate(*a);
}
// one-argument function constructors on numeric, n*pi, symbolic and negated arguments
extern "C" void harness_c03_functions()
{
    long B = verif_param("B", 3);
    RCP<const Integer> n = sym_integer("n", -B, B), d = integer(1 + (long)verif_choice("d", 3));
    RCP<const Basic> x = symbol("x");
    RCP<const Basic> arg;
    switch (verif_choice("arg", 8)) {
        case 0: arg = n; break;
        case 1: arg = Rational::from_two_ints(*n, *d); break;
        case 2: arg = Complex::from_two_nums(*n, *sym_integer("m", -B, B)); break;
        case 3: arg = mul(Rational::from_two_ints(*n, *d), pi); break;
        case 4: arg = add(x, mul(Rational::from_two_ints(*n, *d), pi)); break;
        case 5: arg = mul(n, x); break;
        case 6: arg = neg(x); break;
        default: arg = mul(Complex::from_two_nums(*n, *d), x); break;
    }
    typedef RCP<const Basic> (*Fn)(const RCP<const Basic> &);
    static const Fn fns[] = {sin, cos, tan, cot, sec, csc, asin, acos, atan, sinh, cosh, tanh, asinh, exp, log, abs, sign, floor, ceiling, conjugate, gamma, erf, sqrt, cbrt};
    Fn f = fns[verif_choice("f", sizeof(fns) / sizeof(fns[0]))];
    RCP<const Basic> r;
    try {
        r = f(arg);
    } catch (SymEngineException &) {
        verif_assume(false); // domain errors are not canonical-form questions
    }
    validate(*r);
    VERIF_END();
}
// products of radicals, nested powers, sqrt(x**2)
extern "C" void harness_c03_powers()
{
    long B = verif_param("B", 3);
    RCP<const Integer> a = sym_integer("a", -B, B), b = sym_integer("b", 1, 4);
    RCP<const Basic> x = symbol("x"), y = symbol("y");
    RCP<const Basic> q = Rational::from_two_ints(*a, *b);
    RCP<const Basic> r;
    try {
        switch (verif_choice("k", 7)) {
            case 0: r = mul(sqrt(pow(x, integer(2))), sqrt(pow(x, integer(2)))); break;
            case 1: r = mul(pow(x, q), pow(x, neg(q))); break;
            case 2: r = pow(mul(a, mul(x, y)), q); break;
            case 3: r = pow(pow(x, q), a); break;
            case 4: r = mul(pow(integer(2), q), pow(integer(8), q)); break;
            case 5: r = add(mul(a, sqrt(x)), mul(neg(a), sqrt(x))); break;
            default: r = div(pow(add(x, y), q), pow(add(x, y), q)); break;
        }
    } catch (SymEngineException &) {
        verif_assume(false);
    }
    validate(*r);
    VERIF_END();
}
