// C32 — number-theoretic functions agree with their definitions
#include "vsym.h"
#include <symengine/ntheory.h>
#include <symengine/ntheory_funcs.h>
using namespace vs;

static long L(const Integer &i) { return verif_concretize(mp_get_si(i.as_integer_class())); }
static long igcd(long a, long b)
{
    a = a < 0 ? -a : a;
    b = b < 0 ? -b : b;
    while (b) {
        long t = a % b;
        a = b;
        b = t;
    }
    return a;
}
static bool isprime(long n)
{
    if (n < 2)
        return false;
    for (long d = 2; d * d <= n; d++)
        if (n % d == 0)
            return false;
    return true;
}
static long powmod(long a, long e, long m)
{
    long r = 1 % m;
    a %= m;
    if (a < 0)
        a += m;
    for (long i = 0; i < e; i++)
        r = (r * a) % m;
    return r;
}
// gcd / lcm / extended gcd with symbolic operands (exact Z in the solver)
extern "C" void harness_c32_gcd()
{
    long B = verif_param("B", 12);
    RCP<const Integer> a = sym_integer("a", -B, B), b = sym_integer("b", -B, B);
    RCP<const Integer> g = gcd(*a, *b), l = lcm(*a, *b), g2, s, t;
    gcd_ext(outArg(g2), outArg(s), outArg(t), *a, *b);
    const integer_class &A = a->as_integer_class(), &Bv = b->as_integer_class(), &G = g->as_integer_class();
    verif_assert(G >= 0, "gcd is non-negative");
    verif_assert(eq(*g, *g2), "gcd_ext returns the gcd");
    integer_class comb = s->as_integer_class() * A + t->as_integer_class() * Bv;
    verif_assert_mpz_eq(get_mpz_t(comb), get_mpz_t(G), "g == s*a + t*b");
    if (G != 0) {
        integer_class r1, r2;
        mp_fdiv_r(r1, A, G);
        mp_fdiv_r(r2, Bv, G);
        verif_assert(r1 == 0 && r2 == 0, "gcd divides both operands");
        // every common divisor divides g: checked for a symbolic candidate d
        integer_class d = sym_integer("d", 1, B)->as_integer_class(), q1, q2, q3;
        mp_fdiv_r(q1, A, d);
        mp_fdiv_r(q2, Bv, d);
        mp_fdiv_r(q3, G, d);
        if (q1 == 0 && q2 == 0)
            verif_assert(q3 == 0, "every common divisor divides the gcd");
    } else
        verif_assert(A == 0 && Bv == 0, "gcd is zero only for (0,0)");
    integer_class prod = G * l->as_integer_class(), ab = A * Bv;
    if (ab < 0)
        ab = -ab;
    verif_assert_mpz_eq(get_mpz_t(prod), get_mpz_t(ab), "gcd*lcm == |a*b|");
    {
        // divides(a, b): "b divides a"
        bool expect;
        if (Bv == 0)
            expect = A == 0;
        else {
            integer_class r;
            mp_fdiv_r(r, A, Bv < 0 ? integer_class(-Bv) : Bv);
            expect = r == 0;
        }
        verif_assert(divides(*a, *b) == expect, "divides(a,b) iff a is a multiple of b");
    }
    VERIF_END();
}
// both quotient / modulo conventions
extern "C" void harness_c32_divmod()
{
    long B = verif_param("B", 1000);
    RCP<const Integer> n = sym_integer("n", -B, B), d = sym_integer("d", -12, 12);
    verif_assume(d->as_integer_class() != 0);
    const integer_class &N = n->as_integer_class(), &D = d->as_integer_class();
    RCP<const Integer> q, r, qf, rf;
    quotient_mod(outArg(q), outArg(r), *n, *d);
    quotient_mod_f(outArg(qf), outArg(rf), *n, *d);
    integer_class back = q->as_integer_class() * D + r->as_integer_class(), backf = qf->as_integer_class() * D + rf->as_integer_class();
    verif_assert_mpz_eq(get_mpz_t(back), get_mpz_t(N), "n == q*d + r (round toward zero)");
    verif_assert_mpz_eq(get_mpz_t(backf), get_mpz_t(N), "n == q*d + r (round toward -inf)");
    integer_class ar = r->as_integer_class() < 0 ? integer_class(-r->as_integer_class()) : r->as_integer_class(), ad = D < 0 ? integer_class(-D) : D;
    verif_assert(ar < ad, "|r| < |d| (truncated)");
    verif_assert(r->as_integer_class() == 0 || (r->as_integer_class() > 0) == (N > 0), "truncated remainder has the sign of the dividend");
    integer_class arf = rf->as_integer_class() < 0 ? integer_class(-rf->as_integer_class()) : rf->as_integer_class();
    verif_assert(arf < ad, "|r| < |d| (floored)");
    verif_assert(rf->as_integer_class() == 0 || (rf->as_integer_class() > 0) == (D > 0), "floored remainder has the sign of the divisor");
    verif_assert(eq(*quotient(*n, *d), *q) && eq(*mod(*n, *d), *r), "quotient()/mod() agree with quotient_mod()");
    verif_assert(eq(*quotient_f(*n, *d), *qf) && eq(*mod_f(*n, *d), *rf), "quotient_f()/mod_f() agree with quotient_mod_f()");
    VERIF_END();
}
// modular inverse, CRT, powers and roots modulo m
extern "C" void harness_c32_modular()
{
    long M = verif_param("M", 15);
    RCP<const Integer> a = sym_integer("a", -M, M), m = sym_integer("m", 1, M);
    long av = 0, mv = 0;
    RCP<const Integer> inv;
    int ok = mod_inverse(outArg(inv), *a, *m);
    av = L(*a);
    mv = L(*m); // concrete after the model concretised them
    verif_assert((ok != 0) == (igcd(av, mv) == 1), "mod_inverse exists exactly when gcd(a,m) == 1");
    if (ok) {
        long b = L(*inv);
        verif_assert(b >= 0 && b < mv, "inverse lies in [0,m)");
        verif_assert(((av % mv + mv) % mv * b) % mv == 1 % mv, "a * inverse == 1 (mod m)");
    }
    // nthroot_mod_list: every returned r satisfies r^n == a (mod m) and the list is complete
    long nn = 1 + (long)verif_choice("n", 4);
    std::vector<RCP<const Integer>> roots;
    nthroot_mod_list(roots, a, integer(nn), m);
    long count = 0;
    std::vector<long> seen;
    for (auto &r : roots) {
        long rv = ((L(*r) % mv) + mv) % mv; // any representative of the residue class is accepted
        bool dup = false;
        for (long s : seen)
            if (s == rv)
                dup = true;
        verif_assert(!dup, "the returned roots are distinct modulo m");
        seen.push_back(rv);
        verif_assert(powmod(rv, nn, mv) == ((av % mv) + mv) % mv, "r^n == a (mod m) for every returned root");
        count++;
    }
    long expect = 0;
    for (long x = 0; x < mv; x++)
        if (powmod(x, nn, mv) == ((av % mv) + mv) % mv)
            expect++;
    verif_assert(count == expect, "nthroot_mod_list returns all solutions");
    RCP<const Integer> one_root;
    bool has = nthroot_mod(outArg(one_root), a, integer(nn), m);
    verif_assert(has == (expect > 0), "nthroot_mod reports existence correctly");
    if (has)
        verif_assert(powmod(L(*one_root), nn, mv) == ((av % mv) + mv) % mv, "nthroot_mod returns a solution");
    verif_assert(is_nth_residue(*a, *integer(nn), *m) == (expect > 0), "is_nth_residue agrees with the definition");
    VERIF_END();
}
extern "C" void harness_c32_crt()
{
    RCP<const Integer> m1 = sym_integer("m1", 1, 9), m2 = sym_integer("m2", 1, 9), r1 = sym_integer("r1", 0, 8), r2 = sym_integer("r2", 0, 8);
    RCP<const Integer> R;
    bool ok = crt(outArg(R), {r1, r2}, {m1, m2});
    long a = L(*m1), b = L(*m2), x1 = L(*r1), x2 = L(*r2);
    bool exists = false;
    long l = a / igcd(a, b) * b;
    for (long x = 0; x < l; x++)
        if (x % a == x1 % a && x % b == x2 % b)
            exists = true;
    verif_assert(ok == exists, "crt reports solvability correctly");
    if (ok) {
        long v = L(*R);
        verif_assert(((v % a) + a) % a == x1 % a && ((v % b) + b) % b == x2 % b, "crt result satisfies both congruences");
    }
    VERIF_END();
}
// multiplicative functions and symbols on small arguments (definitions evaluated by brute force in the harness)
extern "C" void harness_c32_multiplicative()
{
    long N = verif_param("N", 40);
    RCP<const Integer> n = sym_integer("n", 2, N);
    RCP<const Integer> phi = totient(n), lam = carmichael(n);
    long nv = L(*n);
    long cnt = 0;
    for (long k = 1; k <= nv; k++)
        if (igcd(k, nv) == 1)
            cnt++;
    verif_assert(L(*phi) == cnt, "totient(n) counts the units modulo n");
    long lambda = 1;
    for (;; lambda++) {
        bool all = true;
        for (long k = 1; k <= nv; k++)
            if (igcd(k, nv) == 1 && powmod(k, lambda, nv) != 1 % nv)
                all = false;
        if (all)
            break;
    }
    verif_assert(L(*lam) == lambda, "carmichael(n) is the exponent of the unit group");
    // Mobius
    int mu = 1;
    long t = nv;
    for (long p = 2; p <= t; p++)
        if (t % p == 0) {
            t /= p;
            if (t % p == 0) {
                mu = 0;
                break;
            }
            mu = -mu;
        }
    verif_assert(mobius(*n) == mu, "mobius(n) follows its definition");
    // prime factors multiply back and are prime
    map_integer_uint pf;
    prime_factor_multiplicities(pf, *n);
    long prod = 1;
    for (auto &kv : pf) {
        verif_assert(isprime(L(*kv.first)), "prime_factor_multiplicities returns primes");
        for (unsigned i = 0; i < kv.second; i++)
            prod *= L(*kv.first);
    }
    verif_assert(prod == nv, "prime factors multiply back to n");
    // multiplicative order and primitive roots
    RCP<const Integer> a = sym_integer("a", 1, N), o;
    long avv = 0;
    bool hasord = multiplicative_order(outArg(o), a, n);
    avv = L(*a);
    verif_assert(hasord == (igcd(avv, nv) == 1), "multiplicative order exists exactly for units");
    if (hasord) {
        long ord = 1;
        while (powmod(avv, ord, nv) != 1 % nv)
            ord++;
        verif_assert(L(*o) == ord, "multiplicative_order is the least positive exponent with a^k == 1");
    }
    RCP<const Integer> g;
    bool hasroot = primitive_root(outArg(g), *n);
    bool cyclic = false;
    for (long c = 1; c <= nv; c++)
        if (igcd(c, nv) == 1) {
            long ord = 1;
            while (powmod(c, ord, nv) != 1 % nv)
                ord++;
            if (ord == cnt)
                cyclic = true;
        }
    verif_assert(hasroot == cyclic, "primitive_root exists exactly when the unit group is cyclic");
    if (hasroot) {
        long gv = L(*g), ord = 1;
        while (powmod(gv, ord, nv) != 1 % nv)
            ord++;
        verif_assert(ord == cnt, "primitive_root returns a generator");
    }
    VERIF_END();
}
// Legendre / Jacobi / Kronecker symbols, quadratic residues
extern "C" void harness_c32_symbols()
{
    long N = verif_param("N", 25);
    RCP<const Integer> a = sym_integer("a", -N, N), n = sym_integer("n", 1, N);
    long nv = L(*n);
    long av = L(*a);
    long am = ((av % nv) + nv) % nv;
    if (nv % 2 == 1) {
        int j = jacobi(*a, *n);
        // Jacobi symbol by its definition: product of Legendre symbols over the prime factorisation
        int ref = 1;
        long t = nv;
        for (long p = 3; p <= t; p += 2)
            while (t % p == 0) {
                t /= p;
                long e = powmod(am, (p - 1) / 2, p);
                ref *= e == 0 ? 0 : e == 1 ? 1 : -1;
            }
        verif_assert(j == ref, "jacobi(a,n) is the product of Legendre symbols (Euler's criterion)");
        verif_assert(kronecker(*a, *n) == j, "kronecker(a,n) extends the Jacobi symbol for odd n");
        if (isprime(nv)) {
            verif_assert(legendre(*a, *n) == j, "legendre(a,p) equals the Jacobi symbol for prime p");
            bool qr = false;
            for (long x = 0; x < nv; x++)
                if ((x * x) % nv == am)
                    qr = true;
            verif_assert(is_quad_residue(*a, *n) == qr, "is_quad_residue agrees with the definition");
        }
    }
    vec_integer_class q = quadratic_residues(*n);
    for (long r = 0; r < nv; r++) {
        bool isq = false;
        for (long x = 0; x < nv; x++)
            if ((x * x) % nv == r)
                isq = true;
        bool found = false;
        for (auto &z : q)
            if (mp_get_si(z) == r)
                found = true;
        verif_assert(found == isq, "quadratic_residues lists exactly the squares modulo n");
    }
    VERIF_END();
}
// sequences: Fibonacci, Lucas, binomial, factorial, primes
extern "C" void harness_c32_sequences()
{
    unsigned long n = 2 + verif_choice("n", verif_param("nseq", 40));
    verif_assert(eq(*fibonacci(n), *add(fibonacci(n - 1), fibonacci(n - 2))), "F(n) = F(n-1) + F(n-2)");
    verif_assert(eq(*lucas(n), *add(lucas(n - 1), lucas(n - 2))), "L(n) = L(n-1) + L(n-2)");
    RCP<const Integer> f1, f2, l1, l2;
    fibonacci2(outArg(f1), outArg(f2), n);
    lucas2(outArg(l1), outArg(l2), n);
    verif_assert(eq(*f1, *fibonacci(n)) && eq(*f2, *fibonacci(n - 1)), "fibonacci2 returns F(n), F(n-1)");
    verif_assert(eq(*l1, *lucas(n)) && eq(*l2, *lucas(n - 1)), "lucas2 returns L(n), L(n-1)");
    verif_assert(eq(*fibonacci(0), *zero) && eq(*fibonacci(1), *one) && eq(*lucas(0), *integer(2)) && eq(*lucas(1), *one), "initial values");
    verif_assert(eq(*factorial(n), *mul(integer((long)n), factorial(n - 1))), "n! = n (n-1)!");
    VERIF_END();
}
extern "C" void harness_c32_binomial()
{
    RCP<const Integer> top = sym_integer("top", -6, 20);
    unsigned long k = 1 + verif_choice("k", 8);
    // Pascal: C(t+1,k) = C(t,k) + C(t,k-1)
    RCP<const Integer> tp1 = integer(top->as_integer_class() + 1);
    verif_assert(eq(*binomial(*tp1, k), *add(binomial(*top, k), binomial(*top, k - 1))), "Pascal's rule for binomial(n,k), also for negative n");
    verif_assert(eq(*binomial(*top, 0), *one), "binomial(n,0) == 1");
    VERIF_END();
}
extern "C" void harness_c32_primes()
{
    // nextprime / probab_prime_p
    RCP<const Integer> v = sym_integer("v", -3, verif_param("vmax", 200));
    RCP<const Integer> np = nextprime(*v);
    long vv = L(*v), pp = L(*np);
    verif_assert(pp > vv && isprime(pp), "nextprime returns a prime above its argument");
    for (long c = (vv < 1 ? 1 : vv) + 1; c < pp; c++)
        verif_assert(!isprime(c), "there is no prime between the argument and nextprime");
    if (vv >= 0)
        verif_assert((probab_prime_p(*v) != 0) == isprime(vv), "probab_prime_p is exact for small arguments");
    VERIF_END();
}
