// C16 — printing is a function of the value, and parse(str(e)) == e
#include "vrecipe.h"
#include <symengine/parser.h>
#include <symengine/printers.h>
using namespace vr;

static Gen make_gen()
{
    Gen g;
    g.leaves = {L_X, L_Y, L_NUM, L_SYMNUM, L_PI};
    g.nums = {{2, 1}, {-1, 2}, {-3, 1}, {7, 3}, {0, 1}, {1, 1}};
    g.unary = {O_NEG, O_POWI, O_SIN, O_COS, O_EXP, O_LOG, O_SQRT, O_ATAN};
    g.binary = {O_ADD, O_SUB, O_MUL, O_DIV};
    g.ipows = {2, -1, -3};
    g.symB = verif_param("symB", 12);
    return g;
}
extern "C" void harness_c16_roundtrip()
{
    Gen g = make_gen();
    Recipe r;
    r.root = g.gen(r, (int)verif_param("depth", 2), "t");
    RCP<const Basic> e;
    try {
        e = build(r, r.root);
    } catch (SymEngineException &) {
        verif_assume(false); // e.g. division by zero / log(0): not an expression
    }
    std::string s = e->__str__();
    RCP<const Basic> back;
    bool ok = true;
    try {
        back = parse(s);
    } catch (SymEngineException &) {
        ok = false;
    }
    verif_assert(ok, "the printed form of an expression in the parseable fragment parses");
    if (ok)
        verif_assert(eq(*back, *e), "parse(str(e)) == e");
    // equal expressions print to the same string: rebuild the same value in another order
    const Node &root = r.n[r.root];
    if (root.op == O_ADD || root.op == O_MUL) {
        RCP<const Basic> l = build(r, root.a), rr = build(r, root.b);
        RCP<const Basic> e2 = root.op == O_ADD ? add(rr, l) : mul(rr, l);
        if (eq(*e2, *e))
            verif_assert(e2->__str__() == s, "equal expressions print to the same string");
    }
    VERIF_END();
}
// numbers of every exact kind, negative coefficients, nested powers, relationals and booleans
extern "C" void harness_c16_numbers()
{
    RCP<const Basic> x = symbol("x"), y = symbol("y");
    long B = verif_param("B", 30);
    RCP<const Integer> a = vs::sym_integer("a", -B, B), b = vs::sym_integer("b", -B, B);
    long d = 1 + (long)verif_choice("d", 4);
    RCP<const Number> q = Rational::from_two_ints(*a, *integer(d));
    RCP<const Number> c = Complex::from_two_nums(*q, *b);
    int k = (int)verif_choice("k", 10);
    RCP<const Basic> e;
    switch (k) {
        case 0: e = q; break;
        case 1: e = c; break;
        case 2: e = add(mul(q, x), mul(c, y)); break;
        case 3: e = pow(x, q); break;
        case 4: e = pow(add(x, b), q); break;
        case 5: e = mul(c, pow(x, pow(y, integer(2)))); break;
        case 6: e = Lt(mul(q, x), b); break;
        case 7: e = logical_and({Le(x, a), Ne(y, b)}); break;
        case 8: e = pow(c, x); break;                       // complex (e.g. -I) and real numbers as power bases
        default: e = pow(q, add(x, y)); break;              // negative / fractional numeric base
    }
    std::string s = e->__str__();
    RCP<const Basic> back;
    bool ok = true;
    try {
        back = parse(s);
    } catch (SymEngineException &) {
        ok = false;
    }
    verif_assert(ok, "the printed form parses");
    if (ok)
        verif_assert(eq(*back, *e), "parse(str(e)) == e for rational/complex coefficients, powers, relationals and booleans");
    VERIF_END();
}
