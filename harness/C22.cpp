// C22 — multivariate polynomial arithmetic is correct (evaluation homomorphism at a symbolic integer point)
#include "vsym.h"
#include <symengine/polys/msymenginepoly.h>
#include <symengine/polys/basic_conversions.h>
using namespace vs;

struct MP {
    RCP<const MIntPoly> p;
    integer_class value; // value at the test point, computed from the construction data
    vec_basic vars;
};
static integer_class ipow(const integer_class &b, unsigned e)
{
    integer_class r(1);
    for (unsigned i = 0; i < e; i++)
        r *= b;
    return r;
}
// polynomial with up to `nt` terms over a chosen subset of {x, y, z}
static MP mk(const std::string &tag, unsigned nt, long B, const integer_class pt[3])
{
    static const char *names[] = {"x", "y", "z"};
    // subset of {x,y,z}, including the empty set (quick tier: 5 representative subsets)
    static const unsigned SUB[] = {0, 1, 2, 3, 7, 4, 5, 6};
    unsigned mask = SUB[verif_choice((tag + "_vars").c_str(), verif_param("nsets", 8))];
    std::vector<unsigned> idx;
    MP r;
    for (unsigned i = 0; i < 3; i++)
        if (mask & (1u << i)) {
            idx.push_back(i);
            r.vars.push_back(symbol(names[i]));
        }
    umap_uvec_mpz d;
    r.value = 0;
    for (unsigned t = 0; t < nt; t++) {
        vec_uint ex;
        integer_class term = sym_integer(tag + "_c" + std::to_string(t), -B, B)->as_integer_class();
        integer_class mon(1);
        for (unsigned k = 0; k < idx.size(); k++) {
            unsigned e = (unsigned)verif_choice((tag + "_e" + std::to_string(t) + std::to_string(k)).c_str(), verif_param("emax", 2) + 1);
            ex.push_back(e);
            mon *= ipow(pt[idx[k]], e);
        }
        if (d.find(ex) != d.end())
            continue; // same monomial twice: keep the first
        if (term == 0)
            continue; // a zero coefficient is not a term
        d[ex] = term;
        r.value += term * mon;
    }
    r.p = MIntPoly::from_dict(r.vars, std::move(d));
    return r;
}
static integer_class eval_at(const MIntPoly &p, const integer_class pt[3])
{
    std::map<RCP<const Basic>, integer_class, RCPBasicKeyLess> vals;
    vals[symbol("x")] = pt[0];
    vals[symbol("y")] = pt[1];
    vals[symbol("z")] = pt[2];
    return p.eval(vals);
}
// the variables may be listed in any order: from_dict sorts them and must permute the exponent vectors accordingly
extern "C" void harness_c22_varorder()
{
    static const char *names[] = {"x", "y", "z"};
    static const unsigned PERM[6][3] = {{0, 1, 2}, {0, 2, 1}, {1, 0, 2}, {1, 2, 0}, {2, 0, 1}, {2, 1, 0}};
    long B = verif_param("B", 3), V = verif_param("V", 3);
    integer_class pt[3] = {sym_integer("vx", -V, V)->as_integer_class(), sym_integer("vy", -V, V)->as_integer_class(), sym_integer("vz", -V, V)->as_integer_class()};
    const unsigned *pm = PERM[verif_choice("perm", 6)];
    vec_basic vars;
    for (unsigned k = 0; k < 3; k++)
        vars.push_back(symbol(names[pm[k]]));
    umap_uvec_mpz d;
    integer_class value = 0;
    for (unsigned t = 0; t < 2; t++) {
        vec_uint ex;
        integer_class term = sym_integer("c" + std::to_string(t), -B, B)->as_integer_class(), mon(1);
        for (unsigned k = 0; k < 3; k++) {
            unsigned e = (unsigned)verif_choice(("e" + std::to_string(t) + std::to_string(k)).c_str(), 3);
            ex.push_back(e);
            mon *= ipow(pt[pm[k]], e); // the k-th exponent belongs to the k-th listed variable
        }
        if (d.find(ex) != d.end() || term == 0)
            continue;
        d[ex] = term;
        value += term * mon;
    }
    RCP<const MIntPoly> p = MIntPoly::from_dict(vars, std::move(d));
    verif_assert(eval_at(*p, pt) == value, "from_dict with the variables in any order builds the polynomial it was given");
    VERIF_END();
}
extern "C" void harness_c22()
{
    long B = verif_param("B", 3), V = verif_param("V", 3);
    integer_class pt[3] = {sym_integer("vx", -V, V)->as_integer_class(), sym_integer("vy", -V, V)->as_integer_class(), sym_integer("vz", -V, V)->as_integer_class()};
    unsigned nt = (unsigned)verif_param("nterms", 2);
    MP a = mk("a", nt, B, pt), b = mk("b", nt, B, pt);
    verif_assert(eval_at(*a.p, pt) == a.value, "eval of a polynomial built from a dictionary");
    int op = (int)verif_choice("op", 5);
    RCP<const MIntPoly> r;
    integer_class expect;
    switch (op) {
        case 0: r = add_mpoly(*a.p, *b.p); expect = a.value + b.value; break;
        case 1: r = sub_mpoly(*a.p, *b.p); expect = a.value - b.value; break;
        case 2: r = mul_mpoly(*a.p, *b.p); expect = a.value * b.value; break;
        case 3: r = neg_mpoly(*a.p); expect = -a.value; break;
        default: r = pow_mpoly(*a.p, 2); expect = a.value * a.value; break;
    }
    integer_class got = eval_at(*r, pt);
    verif_assert_mpz_eq(get_mpz_t(got), get_mpz_t(expect), "eval(p op q) == eval(p) op eval(q) at every integer point, over the union of the variable sets");
    // the result's variable set is contained in the union of the operands' sets
    for (auto &v : r->get_vars()) {
        bool found = false;
        for (auto &w : a.vars)
            found = found || eq(*v, *w);
        for (auto &w : b.vars)
            found = found || eq(*v, *w);
        verif_assert(found, "result variables come from the operands");
    }
    // conversion to an expression and back
    RCP<const Basic> sym = r->as_symbolic();
    set_basic gens;
    for (auto &v : r->get_vars())
        gens.insert(v);
    if (!gens.empty()) {
        RCP<const MIntPoly> back = from_basic<MIntPoly>(sym, gens);
        verif_assert(eval_at(*back, pt) == got, "from_basic(as_symbolic(p)) has the same value");
    }
    VERIF_END();
}
