// C38 — finite-difference weights are exact
#include "vsym.h"
#include <symengine/finitediff.h>
using namespace vs;

static void c38_body(long cden_default)
{
    unsigned n = (unsigned)verif_param("npoints", 3), maxd = (unsigned)verif_param("maxd", 2);
    // grid: distinct points from {-2,...,2} (enumerated), optionally halved (half-integer grids)
    long g[5];
    bool halves = verif_param("halves", 0) && verif_choice("halves", 2);
    bool sorted = verif_param("sorted", 0); // only increasing grids (fewer enumerated grids)
    vec_basic grid;
    for (unsigned j = 0; j < n; j++) {
        g[j] = (long)verif_choice(("g" + std::to_string(j)).c_str(), 5) - 2;
        for (unsigned i = 0; i < j; i++)
            verif_assume(sorted ? g[i] < g[j] : g[i] != g[j]);
        grid.push_back(halves ? (RCP<const Basic>)Rational::from_two_ints(g[j], 2) : (RCP<const Basic>)integer(g[j]));
    }
    // centre and test polynomial are solver variables
    long X = verif_param("X", 1000);
    long cden = verif_param("cden", cden_default); // > 1: rational centre n/d, 1 <= d <= cden (not pre-normalised)
    RCP<const Number> x0 = cden > 1 ? sym_rational("x0", X, cden) : (RCP<const Number>)sym_integer("x0", -X, X);
    long B = verif_param("B", 5);
    std::vector<RCP<const Integer>> a;
    for (unsigned i = 0; i < n; i++)
        a.push_back(sym_integer("a" + std::to_string(i), -B, B)); // degree < n
    vec_basic w = generate_fdiff_weights_vector(grid, maxd, x0);
    verif_assert(w.size() == n * (maxd + 1), "weights vector has grid size x (max order + 1) entries");
    for (unsigned k = 0; k <= maxd && k < n; k++) {
        // sum_j w[k][j] * p(g_j), p evaluated exactly at the (possibly half-integer) grid point
        RCP<const Number> acc = zero;
        for (unsigned j = 0; j < n; j++) {
            RCP<const Number> gj = rcp_static_cast<const Number>(grid[j]);
            RCP<const Number> pv = zero, pw = one;
            for (unsigned i = 0; i < n; i++) {
                pv = pv->add(*pw->mul(*a[i]));
                pw = pw->mul(*gj);
            }
            verif_assert(is_a_Number(*w[k * n + j]), "weights for numeric grids are numbers");
            acc = acc->add(*rcp_static_cast<const Number>(w[k * n + j])->mul(*pv));
        }
        // k-th derivative of p at x0: sum_i a_i * i!/(i-k)! * x0^(i-k)
        RCP<const Number> d = zero;
        for (unsigned i = k; i < n; i++) {
            integer_class f = a[i]->as_integer_class();
            for (unsigned t = 0; t < k; t++)
                f *= integer_class((long)(i - t));
            RCP<const Number> c = integer(f);
            for (unsigned t = 0; t < i - k; t++)
                c = c->mul(*x0);
            d = d->add(*c);
        }
        verif_assert(eq(*acc, *d), "weights of order k applied to p(grid) give the k-th derivative of p at the centre");
    }
}

extern "C" void harness_c38()
{
    c38_body(1);
    VERIF_END();
}
// centre a symbolic rational n/d (d <= cden, not in lowest terms: the recurrence's x0 - g_j differences go through Rational arithmetic)
extern "C" void harness_c38_ratcentre()
{
    c38_body(2);
    VERIF_END();
}
