// C38 — finite-difference weights are exact
#include "vsym.h"
#include <symengine/finitediff.h>
using namespace vs;

extern "C" void harness_c38()
{
    unsigned n = (unsigned)verif_param("npoints", 3), maxd = (unsigned)verif_param("maxd", 2);
    // grid: distinct points from {-2,...,2} (enumerated), optionally halved (half-integer grids)
    long g[5];
    bool halves = verif_param("halves", 0) && verif_choice("halves", 2);
    vec_basic grid;
    for (unsigned j = 0; j < n; j++) {
        g[j] = (long)verif_choice(("g" + std::to_string(j)).c_str(), 5) - 2;
        for (unsigned i = 0; i < j; i++)
            verif_assume(g[i] != g[j]);
        grid.push_back(halves ? (RCP<const Basic>)Rational::from_two_ints(g[j], 2) : (RCP<const Basic>)integer(g[j]));
    }
    // centre and test polynomial are solver variables
    long X = verif_param("X", 1000);
    RCP<const Integer> x0 = sym_integer("x0", -X, X);
    long B = verif_param("B", 5);
    std::vector<RCP<const Integer>> a;
    for (unsigned i = 0; i < n; i++)
        a.push_back(sym_integer("a" + std::to_string(i), -B, B)); // degree < n
    vec_basic w = generate_fdiff_weights_vector(grid, maxd, x0);
    verif_assert(w.size() == n * (maxd + 1), "weights vector has grid size x (max order + 1) entries");
    for (unsigned k = 0; k <= maxd && k < n; k++) {
        // sum_j w[k][j] * p(g_j), p evaluated exactly at the (possibly half-integer) grid point
        RCP<const Number> acc = zero;
        for (unsigned j = 0; j < n; j++) {
            RCP<const Number> gj = rcp_static_cast<const Number>(grid[j]);
            RCP<const Number> pv = zero, pw = one;
            for (unsigned i = 0; i < n; i++) {
                pv = pv->add(*pw->mul(*a[i]));
                pw = pw->mul(*gj);
            }
            verif_assert(is_a_Number(*w[k * n + j]), "weights for numeric grids are numbers");
            acc = acc->add(*rcp_static_cast<const Number>(w[k * n + j])->mul(*pv));
        }
        // k-th derivative of p at x0: sum_i a_i * i!/(i-k)! * x0^(i-k)
        integer_class d(0);
        for (unsigned i = k; i < n; i++) {
            integer_class c = a[i]->as_integer_class();
            for (unsigned t = 0; t < k; t++)
                c *= integer_class((long)(i - t));
            for (unsigned t = 0; t < i - k; t++)
                c *= x0->as_integer_class();
            d += c;
        }
        verif_assert(eq(*acc, *integer(d)), "weights of order k applied to p(grid) give the k-th derivative of p at the centre");
    }
    VERIF_END();
}
