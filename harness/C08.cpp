// C08 — function constructors' automatic evaluation preserves value
#include "veval.h"
#include "vsym.h"
#include <symengine/ntheory.h>
#include <symengine/ntheory_funcs.h>
using namespace vs;

static RCP<const Basic> X() { return symbol("x"); }
typedef RCP<const Basic> (*Fn)(const RCP<const Basic> &);

// trigonometric functions of +-x + k*pi/6 for a symbolic integer k: the rewritten form (sign, co-function, residual shift) must
// have the value given by the addition formulas, for every real x
extern "C" void harness_c08_trig_shift()
{
    long K = verif_param("K", 6);
    RCP<const Integer> k = sym_integer("k", -K, K);
    bool negx = verif_choice("negx", 2);
    ve::Env env;
    env.sqrt_only = true;
    double xv = verif_real("x");
    env.val["x"] = xv;
    RCP<const Basic> arg = add(negx ? neg(X()) : X(), mul(Rational::from_two_ints(*k, *integer(6)), pi));
    integer_class km;
    mp_fdiv_r(km, k->as_integer_class(), integer_class(12));
    long m = mp_get_si(km);
    // sin and cos of j*pi/6, j = 0..11, as exact algebraic numbers (r3 = sqrt 3)
    double r3 = verif_uf1("ROOT2", 3.0);
    verif_axiom(r3 > 0);
    verif_axiom(r3 * r3 == 3.0);
    double h = verif_rational(1, 2);
    double S[12] = {0.0, h, r3 * h, 1.0, r3 * h, h, 0.0, -h, -(r3 * h), -1.0, -(r3 * h), -h}, C[12];
    for (int j = 0; j < 12; j++)
        C[j] = S[(j + 3) % 12];
    double s = ve::Sin(xv), c = ve::Cos(xv);
    // instances of the addition formulas and of parity for the arguments a rewritten form can contain: +-x + j*pi/6, |j| <= 3
    for (int sg = 0; sg < 2; sg++)
        for (int j = -3; j <= 3; j++) {
            double base = sg ? -xv : xv, sb = sg ? -s : s, cb = c;
            double t = base + ve::c_pi() * verif_rational(j, 6);
            int jj = ((j % 12) + 12) % 12;
            verif_axiom(verif_uf1("SIN", t) == sb * C[jj] + cb * S[jj]);
            verif_axiom(verif_uf1("COS", t) == cb * C[jj] - sb * S[jj]);
        }
    double su = negx ? -s : s; // sin(u), cos(u) of the non-shift part u = +-x
    double sv = su * C[m] + c * S[m], cv = c * C[m] - su * S[m]; // sin, cos of u + m*pi/6
    int f = (int)verif_choice("f", 6);
    static const Fn F[] = {sin, cos, tan, cot, sec, csc};
    RCP<const Basic> r = F[f](arg);
    // singular points of the function or of the rewritten form are outside the comparison
    if (f >= 2) {
        verif_assume(sv != 0 && cv != 0);
        verif_assume(s != 0 && c != 0);
    }
    double expect = f == 0 ? sv : f == 1 ? cv : f == 2 ? sv / cv : f == 3 ? cv / sv : f == 4 ? 1.0 / cv : 1.0 / sv;
    double got;
    try {
        got = ve::ev(*r, env);
    } catch (ve::Unsupported &) {
        verif_assert(false, "the shifted trigonometric function is rewritten into functions the oracle knows");
        return;
    }
    verif_assert_req(got, expect, "f(+-x + k*pi/6) has the value given by the addition formulas");
    VERIF_END();
}
// special-angle table: exact values at k*pi/12 must satisfy the defining algebraic relations
extern "C" void harness_c08_trig_table()
{
    long K = verif_param("K", 30);
    RCP<const Integer> k = sym_integer("k", -K, K);
    auto ang = [&](const integer_class &n) { return mul(Rational::from_two_ints(*integer(n), *integer(12)), pi); };
    integer_class kk = k->as_integer_class();
    RCP<const Basic> t = ang(kk), t2 = ang(kk * 2);
    ve::Env env;
    env.sqrt_only = true;
    RCP<const Basic> S = sin(t), C = cos(t), S2 = sin(t2), C2 = cos(t2);
    double s, c, s2, c2;
    try {
        s = ve::ev(*S, env);
        c = ve::ev(*C, env);
        s2 = ve::ev(*S2, env);
        c2 = ve::ev(*C2, env);
    } catch (ve::Unsupported &) {
        verif_assert(false, "sin and cos of multiples of pi/12 evaluate to exact algebraic numbers");
        return;
    }
    verif_assert_req(s * s + c * c, 1.0, "sin^2 + cos^2 == 1 at k*pi/12");
    verif_assert_req(s2, 2.0 * s * c, "sin(2t) == 2 sin t cos t");
    verif_assert_req(c2, c * c - s * s, "cos(2t) == cos^2 t - sin^2 t");
    // quadrant signs
    integer_class km;
    mp_fdiv_r(km, kk, integer_class(24));
    long m = mp_get_si(km);
    verif_assert(m == 0 || m == 12 ? s == 0 : (m < 12 ? s > 0 : s < 0), "sign of sin by quadrant");
    verif_assert(m == 6 || m == 18 ? c == 0 : ((m < 6 || m > 18) ? c > 0 : c < 0), "sign of cos by quadrant");
    // pi/6 is fixed by the triple-angle relation and the anchors sin(pi/2) = 1, sin(0) = 0
    RCP<const Basic> S3 = sin(ang(kk * 3));
    verif_assert_req(ve::ev(*S3, env), 3.0 * s - 4.0 * s * s * s, "sin(3t) == 3 sin t - 4 sin^3 t");
    if (m == 6)
        verif_assert(eq(*S, *one), "sin(pi/2 + 2 n pi) == 1");
    // the other functions are quotients of these
    RCP<const Basic> T = tan(t), CT = cot(t), SE = sec(t), CS = csc(t);
    if (c != 0) {
        verif_assert_req(ve::ev(*T, env) * c, s, "tan t == sin t / cos t");
        verif_assert_req(ve::ev(*SE, env) * c, 1.0, "sec t == 1 / cos t");
    } else
        verif_assert(eq(*T, *ComplexInf) && eq(*SE, *ComplexInf), "tan and sec have poles where cos vanishes");
    if (s != 0) {
        verif_assert_req(ve::ev(*CT, env) * s, c, "cot t == cos t / sin t");
        verif_assert_req(ve::ev(*CS, env) * s, 1.0, "csc t == 1 / sin t");
    } else
        verif_assert(eq(*CT, *ComplexInf) && eq(*CS, *ComplexInf), "cot and csc have poles where sin vanishes");
    VERIF_END();
}
// inverse trigonometric functions at the table values: f(finv(v)) == v and the principal range
extern "C" void harness_c08_inverse()
{
    RCP<const Basic> s2 = sqrt(integer(2)), s3 = sqrt(integer(3));
    RCP<const Basic> vals[] = {zero, one, minus_one, div(one, integer(2)), div(minus_one, integer(2)), div(s2, integer(2)), div(neg(s2), integer(2)), div(s3, integer(2)), div(neg(s3), integer(2)),
                               s3, neg(s3), div(s3, integer(3)), div(neg(s3), integer(3)), integer(2), integer(-2), div(mul(integer(2), s3), integer(3)), s2, neg(s2)};
    RCP<const Basic> v = vals[verif_choice("v", sizeof vals / sizeof vals[0])];
    int f = (int)verif_choice("f", 6);
    static const Fn INV[] = {asin, acos, atan, acot, asec, acsc};
    static const Fn DIR[] = {sin, cos, tan, cot, sec, csc};
    RCP<const Basic> r;
    try {
        r = INV[f](v);
    } catch (SymEngineException &) {
        verif_assume(false);
    }
    // only evaluated results (rational multiples of pi) are compared; an unevaluated asin(v) has its value by definition
    RCP<const Basic> q = div(r, pi);
    if (is_a_Number(*q) && down_cast<const Number &>(*q).is_exact() && !is_a<Complex>(*q)) {
        RCP<const Basic> back = DIR[f](r);
        verif_assert(eq(*back, *v) || eq(*expand(sub(back, v)), *zero), "f(finv(v)) == v at a table value");
        // principal ranges as multiples of pi: asin, atan, acsc in [-1/2, 1/2]; acos, asec in [0, 1]; acot in (-1/2, 1/2]
        const Number &qn = down_cast<const Number &>(*q);
        RCP<const Number> h = rcp_static_cast<const Number>(div(one, integer(2)));
        bool inHalf = !qn.sub(*h)->is_positive() && !qn.add(*h)->is_negative();
        bool in01 = !qn.is_negative() && !qn.sub(*one)->is_positive();
        // known finding: the exact acot table uses the range (0, pi) for negative arguments while every numeric evaluator of the
        // library computes acot(x) as atan(1/x) in (-pi/2, pi/2]
        bool known = f == 3 && !inHalf && in01 && verif_known("C08/acot-exact-table-vs-numeric-branch", true);
        verif_assert((f == 1 || f == 4) ? in01 : inHalf, "the inverse function returns the principal value");
        if (known)
            verif_known_end();
    }
    VERIF_END();
}
// exact number evaluation: floor, ceiling, truncate, abs, sign, conjugate, max, min, kronecker_delta, levi_civita
extern "C" void harness_c08_exact()
{
    long B = verif_param("B", 9);
    RCP<const Integer> n = sym_integer("n", -B, B), d = sym_integer("d", 1, 4);
    RCP<const Number> q = Rational::from_two_ints(*n, *d);
    integer_class fl, ce, tr;
    mp_fdiv_q(fl, n->as_integer_class(), d->as_integer_class());
    mp_cdiv_q(ce, n->as_integer_class(), d->as_integer_class());
    mp_tdiv_q(tr, n->as_integer_class(), d->as_integer_class());
    switch (verif_choice("part", 6)) {
        case 0:
            verif_assert(eq(*floor(q), *integer(fl)), "floor(n/d) is the floor quotient");
            verif_assert(eq(*ceiling(q), *integer(ce)), "ceiling(n/d) is the ceiling quotient");
            verif_assert(eq(*truncate(q), *integer(tr)), "truncate(n/d) rounds toward zero");
            break;
        case 1: {
            RCP<const Basic> a = abs(q), s = sign(q);
            verif_assert(eq(*a, *(q->is_negative() ? q->mul(*minus_one) : q)), "abs of a rational");
            verif_assert(eq(*s, *(q->is_zero() ? (RCP<const Basic>)zero : q->is_negative() ? (RCP<const Basic>)minus_one : (RCP<const Basic>)one)), "sign of a rational");
            verif_assert(eq(*mul(s, a), *q), "sign(q)*abs(q) == q");
            break;
        }
        case 2: { // Gaussian integers: conjugate, abs^2, sign*abs
            RCP<const Integer> im = sym_integer("im", -3, 3);
            RCP<const Number> z = Complex::from_two_nums(*n, *im);
            RCP<const Basic> cj = conjugate(z);
            verif_assert(eq(*cj, *Complex::from_two_nums(*n, *im->mulint(*minus_one))), "conjugate negates the imaginary part");
            RCP<const Basic> a = abs(z);
            verif_assert(eq(*expand(pow(a, integer(2))), *integer(n->as_integer_class() * n->as_integer_class() + im->as_integer_class() * im->as_integer_class())), "abs(z)^2 == re^2 + im^2");
            verif_assert(eq(*expand(mul(z, cj)), *expand(pow(a, integer(2)))), "z * conjugate(z) == abs(z)^2");
            break;
        }
        case 3: { // max / min of three exact numbers
            RCP<const Integer> b = sym_integer("b", -B, B), c = sym_integer("c", -B, B);
            RCP<const Number> r = Rational::from_two_ints(*c, *integer(2));
            RCP<const Basic> mx = max({q, b, r}), mn = min({q, b, r});
            // numeric maximum by cross-multiplication (denominators d, 1, 2 are positive)
            integer_class D = d->as_integer_class() * 2, v1 = n->as_integer_class() * 2, v2 = b->as_integer_class() * D, v3 = c->as_integer_class() * d->as_integer_class();
            integer_class M = v1 > v2 ? (v1 > v3 ? v1 : v3) : (v2 > v3 ? v2 : v3), m = v1 < v2 ? (v1 < v3 ? v1 : v3) : (v2 < v3 ? v2 : v3);
            verif_assert(is_a_Number(*mx) && eq(*mul(mx, integer(D)), *integer(M)), "max of exact numbers is the numerically largest");
            verif_assert(is_a_Number(*mn) && eq(*mul(mn, integer(D)), *integer(m)), "min of exact numbers is the numerically smallest");
            break;
        }
        case 4: {
            RCP<const Integer> b = sym_integer("b", -B, B);
            verif_assert(eq(*kronecker_delta(n, b), *(n->as_integer_class() == b->as_integer_class() ? one : zero)), "kronecker_delta on integers");
            verif_assert(eq(*kronecker_delta(X(), X()), *one), "kronecker_delta(x, x) == 1");
            break;
        }
        default: {
            long i = (long)verif_choice("i", 3), j = (long)verif_choice("j", 3), k = (long)verif_choice("k", 3);
            // the Levi-Civita symbol with three indices from {0,1,2}: sign of (j-i)(k-i)(k-j), 0 on a repeated index
            long p = (j - i) * (k - i) * (k - j);
            RCP<const Basic> lc = levi_civita({integer(i), integer(j), integer(k)});
            verif_assert(eq(*lc, *integer(p > 0 ? 1 : p < 0 ? -1 : 0)), "levi_civita is the sign of the permutation (0 for a repeated index)");
            break;
        }
    }
    VERIF_END();
}
// gamma family at integers and half-integers: recurrence, reflection anchors, beta = gamma*gamma/gamma
extern "C" void harness_c08_gamma()
{
    long K = verif_param("K", 9);
    RCP<const Integer> k = sym_integer("k", -K, K), j = sym_integer("j", -K, K);
    RCP<const Number> x = Rational::from_two_ints(*k, *integer(2)), y = Rational::from_two_ints(*j, *integer(2));
    ve::Env env;
    env.sqrt_only = true;
    auto pole = [](const Number &v) { return is_a<Integer>(v) && !v.is_positive(); };
    auto val = [&](const RCP<const Basic> &e, bool &inf) {
        inf = eq(*e, *ComplexInf);
        return inf ? 0.0 : ve::ev(*e, env);
    };
    RCP<const Basic> gx = gamma(x), gx1 = gamma(x->add(*one));
    bool ix, ix1;
    double vx, vx1;
    try {
        vx = val(gx, ix);
        vx1 = val(gx1, ix1);
    } catch (ve::Unsupported &) {
        verif_assert(false, "gamma at integers and half-integers evaluates");
        return;
    }
    verif_assert(ix == pole(*x), "gamma is zoo exactly at the non-positive integers");
    if (!ix && !ix1)
        verif_assert_req(vx1, ve::num_value(*x) * vx, "gamma(x + 1) == x * gamma(x)");
    if (eq(*x, *one))
        verif_assert(eq(*gx, *one), "gamma(1) == 1");
    if (eq(*x, *div(one, integer(2))))
        verif_assert_req(vx * vx, ve::c_pi(), "gamma(1/2)^2 == pi");
    // beta(x, y) gamma(x + y) == gamma(x) gamma(y), with 1/gamma == 0 at the poles
    RCP<const Basic> b;
    try {
        b = beta(x, y);
    } catch (SymEngineException &) {
        verif_assert(false, "beta at integers and half-integers does not throw");
        return;
    }
    RCP<const Number> sxy = x->add(*y);
    bool iy, ib, is;
    double vy = val(gamma(y), iy), vs = val(gamma(sxy), is);
    if (is_a<Beta>(*b)) { // left unevaluated: nothing to compare
        VERIF_END();
        return;
    }
    double vb = val(b, ib);
    if (!ix && !iy) {
        if (is)
            verif_assert(!ib && vb == 0.0, "beta(x, y) == 0 where gamma(x + y) has a pole and gamma(x), gamma(y) are finite");
        else {
            verif_assert(!ib, "beta is finite where gamma(x), gamma(y), gamma(x + y) are");
            verif_assert_req(vb * vs, vx * vy, "beta(x, y) * gamma(x + y) == gamma(x) * gamma(y)");
        }
    } else if (!is)
        verif_assert(ib, "beta has a pole where gamma(x) or gamma(y) has one and gamma(x + y) is finite");
    VERIF_END();
}
// zeta / dirichlet_eta / erf / log / lambertw / primepi / primorial special values
extern "C" void harness_c08_special()
{
    switch (verif_choice("part", 6)) {
        case 0: { // zeta at non-positive integers is -B_{n+1}/(n+1); zeta(0) == -1/2; zeta(1) == zoo
            long n = (long)verif_choice("n", 8);
            RCP<const Basic> z = zeta(integer(-n));
            RCP<const Basic> e = div(neg(bernoulli(n + 1)), integer(n + 1));
            if (n == 0)
                e = div(minus_one, integer(2));
            verif_assert(eq(*z, *e), "zeta(-n) == -B(n+1)/(n+1)");
            verif_assert(eq(*zeta(one), *ComplexInf), "zeta(1) is a pole");
            break;
        }
        case 1: { // zeta(2m) == (-1)^(m+1) B_2m (2 pi)^(2m) / (2 (2m)!)
            long m = 1 + (long)verif_choice("m", 4);
            RCP<const Basic> z = zeta(integer(2 * m));
            RCP<const Basic> e = div(mul(mul(integer(m % 2 ? 1 : -1), bernoulli(2 * m)), pow(mul(integer(2), pi), integer(2 * m))), mul(integer(2), factorial(2 * m)));
            verif_assert(eq(*expand(z), *expand(e)), "zeta(2m) by Euler's formula");
            break;
        }
        case 2: { // eta(s) == (1 - 2^(1-s)) zeta(s), s != 1
            long s = (long)verif_choice("s", 10) - 4;
            if (s == 1)
                verif_assert(eq(*dirichlet_eta(one), *log(integer(2))), "eta(1) == log 2");
            else {
                RCP<const Basic> et = dirichlet_eta(integer(s));
                if (!is_a<Dirichlet_eta>(*et)) // (left unevaluated where zeta(s) has no closed form: nothing to compare)
                    verif_assert(eq(*expand(et), *expand(mul(sub(one, pow(integer(2), integer(1 - s))), zeta(integer(s))))), "eta(s) == (1 - 2^(1-s)) zeta(s)");
            }
            break;
        }
        case 3: { // erf, erfc parity and special values
            RCP<const Basic> x = X();
            verif_assert(eq(*erf(zero), *zero) && eq(*erf(neg(x)), *neg(erf(x))), "erf(0) == 0, erf(-x) == -erf(x)");
            verif_assert(eq(*erfc(zero), *one), "erfc(0) == 1");
            RCP<const Basic> l = erfc(neg(x));
            ve::Env env;
            double xv = verif_real("x");
            env.val["x"] = xv;
            verif_assert_req(ve::ev(*l, env), 2.0 - ve::ev(*erfc(x), env), "erfc(-x) == 2 - erfc(x)");
            break;
        }
        case 4: { // log of exact numbers: exp(log(v)) == v, log(1) == 0, log(E) == 1, log(p/q) value
            // p, q prime or 1 (log(4/10) is rewritten to log(2) - log(5): comparing it would need the whole multiplicative structure
            // of log as axioms; with prime p, q the single instance log(p/q) == log(p) - log(q) below suffices)
            RCP<const Integer> p = sym_integer("p", 1, 11), q = sym_integer("q", 1, 11);
            auto pr1 = [](const Integer &n) { long v = mp_get_si(n.as_integer_class()); return v == 1 || v == 2 || v == 3 || v == 5 || v == 7 || v == 11; };
            verif_assume(pr1(*p) && pr1(*q));
            RCP<const Number> v = Rational::from_two_ints(*p, *q);
            RCP<const Basic> l = log(v);
            ve::Env env;
            double pv = ve::num_value(*p), qv = ve::num_value(*q);
            verif_axiom(ve::Log(pv / qv) == ve::Log(pv) - ve::Log(qv)); // instance of the logarithm law for the oracle's symbols
            verif_assert_req(ve::ev(*l, env), ve::Log(pv / qv), "log(p/q) has the value of the logarithm");
            verif_assert(eq(*log(one), *zero) && eq(*log(E), *one), "log(1) == 0, log(E) == 1");
            verif_assert(eq(*exp(zero), *one) && eq(*exp(one), *E), "exp(0) == 1, exp(1) == E");
            verif_assert(eq(*lambertw(zero), *zero) && eq(*lambertw(E), *one), "lambertw(0) == 0, lambertw(E) == 1");
            break;
        }
        default: { // primepi / primorial against brute force
            RCP<const Integer> n = sym_integer("n", 0, verif_param("pmax", 40));
            long nv = mp_get_si(n->as_integer_class());
            long cnt = 0;
            integer_class prod = 1;
            for (long c = 2; c <= nv; c++) {
                bool pr = true;
                for (long t = 2; t * t <= c; t++)
                    if (c % t == 0)
                        pr = false;
                if (pr) {
                    cnt++;
                    prod *= c;
                }
            }
            verif_assert(eq(*primepi(n), *integer(cnt)), "primepi(n) counts the primes <= n");
            if (nv >= 1)
                verif_assert(eq(*primorial(n), *integer(prod)), "primorial(n) is the product of the primes <= n");
            break;
        }
    }
    VERIF_END();
}
