// C27 — set operations have pointwise membership semantics
#include "vsym.h"
#include <symengine/sets.h>
#include <symengine/logic.h>
using namespace vs;

// test point p = pn/2 (integers and half-integers) as exact pair (pn, 2)
struct Pt {
    integer_class n; // numerator over denominator 2
    RCP<const Number> num;
};
// operand with membership computed directly from its parameters
struct Operand {
    RCP<const Set> s;
    bool mem;
};
static bool is_integer_pt(const Pt &p)
{
    integer_class r;
    mp_fdiv_r(r, p.n, integer_class(2));
    return r == 0;
}
static bool g_enumEnds = false; // interval end points one path per value instead of symbolic (nested entry)
static RCP<const Integer> endpoint(const std::string &name, long B)
{
    if (g_enumEnds)
        return integer(-B + (long)verif_choice(name.c_str(), 2 * B + 1));
    return sym_integer(name, -B, B);
}
static Operand operand(const std::string &tag, const Pt &p, long B, const std::vector<int> &kinds = {})
{
    Operand o;
    unsigned kc = (unsigned)verif_choice((tag + "_k").c_str(), kinds.empty() ? 11 : kinds.size());
    switch (kinds.empty() ? (int)kc : kinds[kc]) {
        case 0: { // interval [a,b] with open flags, a <= b symbolic integers
            RCP<const Integer> a = endpoint(nm(tag, "a"), B), b = endpoint(nm(tag, "b"), B);
            verif_assume(a->as_integer_class() <= b->as_integer_class());
            bool lo = verif_choice(nm(tag, "lo").c_str(), 2), ro = verif_choice(nm(tag, "ro").c_str(), 2);
            verif_assume(a->as_integer_class() < b->as_integer_class() || (!lo && !ro)); // interval(a,a,open) is rejected by the constructor
            o.s = interval(a, b, lo, ro);
            integer_class a2 = a->as_integer_class() * 2, b2 = b->as_integer_class() * 2;
            o.mem = (lo ? p.n > a2 : p.n >= a2) && (ro ? p.n < b2 : p.n <= b2);
            break;
        }
        case 1: { // (-oo, b) or (-oo, b]
            RCP<const Integer> b = sym_integer(nm(tag, "b"), -B, B);
            bool ro = verif_choice(nm(tag, "ro").c_str(), 2);
            o.s = interval(NegInf, b, true, ro);
            integer_class b2 = b->as_integer_class() * 2;
            o.mem = ro ? p.n < b2 : p.n <= b2;
            break;
        }
        case 2: { // [a, oo)
            RCP<const Integer> a = sym_integer(nm(tag, "a"), -B, B);
            bool lo = verif_choice(nm(tag, "lo").c_str(), 2);
            o.s = interval(a, Inf, lo, true);
            integer_class a2 = a->as_integer_class() * 2;
            o.mem = lo ? p.n > a2 : p.n >= a2;
            break;
        }
        case 3: { // finite set {e, f}
            RCP<const Integer> e = sym_integer(nm(tag, "e"), -B, B), f = sym_integer(nm(tag, "f"), -B, B);
            o.s = finiteset({e, f});
            o.mem = p.n == e->as_integer_class() * 2 || p.n == f->as_integer_class() * 2;
            break;
        }
        case 4:
            o.s = emptyset();
            o.mem = false;
            break;
        case 5:
            o.s = reals();
            o.mem = true;
            break;
        case 6:
            o.s = integers();
            o.mem = is_integer_pt(p);
            break;
        case 7:
            o.s = rationals();
            o.mem = true;
            break;
        case 8:
            o.s = universalset();
            o.mem = true;
            break;
        case 9:
            o.s = naturals();
            o.mem = is_integer_pt(p) && p.n > 0;
            break;
        default:
            o.s = naturals0();
            o.mem = is_integer_pt(p) && p.n >= 0;
            break;
    }
    return o;
}
// tri-state membership of the point in a RESULT set by its structure: 1 yes, 0 no, -1 unknown to the walker
static int member(const Set &s, const Pt &p)
{
    auto cmp2 = [&](const Number &e) -> int { // sign of p - e for e Integer/Rational/Infty
        if (is_a<Infty>(e))
            return down_cast<const Infty &>(e).is_negative_infinity() ? 1 : -1;
        integer_class en, ed;
        if (is_a<Integer>(e)) {
            en = down_cast<const Integer &>(e).as_integer_class();
            ed = 1;
        } else if (is_a<Rational>(e)) {
            en = get_num(down_cast<const Rational &>(e).as_rational_class());
            ed = get_den(down_cast<const Rational &>(e).as_rational_class());
        } else
            return 2;
        integer_class l = p.n * ed, r = en * 2;
        return l < r ? -1 : (l > r ? 1 : 0);
    };
    if (is_a<EmptySet>(s))
        return 0;
    if (is_a<UniversalSet>(s) || is_a<Reals>(s) || is_a<Rationals>(s) || is_a<Complexes>(s))
        return 1;
    if (is_a<Integers>(s))
        return is_integer_pt(p) ? 1 : 0;
    if (is_a<Naturals>(s))
        return (is_integer_pt(p) && p.n > 0) ? 1 : 0;
    if (is_a<Naturals0>(s))
        return (is_integer_pt(p) && p.n >= 0) ? 1 : 0;
    if (is_a<Interval>(s)) {
        const Interval &i = down_cast<const Interval &>(s);
        int cl = cmp2(*i.get_start()), cr = cmp2(*i.get_end());
        if (cl == 2 || cr == 2)
            return -1;
        bool okl = i.get_left_open() ? cl > 0 : cl >= 0, okr = i.get_right_open() ? cr < 0 : cr <= 0;
        return okl && okr;
    }
    if (is_a<FiniteSet>(s)) {
        for (auto &e : down_cast<const FiniteSet &>(s).get_container()) {
            if (!is_a_Number(*e))
                return -1;
            if (cmp2(down_cast<const Number &>(*e)) == 0)
                return 1;
        }
        return 0;
    }
    if (is_a<Union>(s)) {
        int r = 0;
        for (auto &c : down_cast<const Union &>(s).get_container()) {
            int m = member(*c, p);
            if (m == 1)
                return 1;
            if (m < 0)
                r = -1;
        }
        return r;
    }
    if (is_a<Intersection>(s)) {
        int r = 1;
        for (auto &c : down_cast<const Intersection &>(s).get_container()) {
            int m = member(*c, p);
            if (m == 0)
                return 0;
            if (m < 0)
                r = -1;
        }
        return r;
    }
    if (is_a<Complement>(s)) {
        const Complement &c = down_cast<const Complement &>(s);
        int u = member(*c.get_universe(), p), k = member(*c.get_container(), p);
        if (u == 0)
            return 0;
        if (u < 0 || k < 0)
            return -1;
        return k ? 0 : 1;
    }
    return -1;
}
static void check(const RCP<const Set> &res, bool expect, const Pt &p, const char *what)
{
    int m = member(*res, p);
    verif_assert(m < 0 || (m == 1) == expect, what);
    RCP<const Boolean> c = res->contains(p.num);
    if (is_a<BooleanAtom>(*c))
        verif_assert(down_cast<const BooleanAtom &>(*c).get_val() == expect, "a definite contains() answer agrees with pointwise membership");
}
extern "C" void harness_c27_binary()
{
    long B = verif_param("B", 2);
    Pt p;
    RCP<const Integer> pn = sym_integer("pn", -2 * B - 1, 2 * B + 1);
    p.n = pn->as_integer_class();
    p.num = Rational::from_two_ints(*pn, *integer(2));
    Operand a = operand("a", p, B), b = operand("b", p, B);
    RCP<const Set> u, i, c;
    u = set_union({a.s, b.s});
    i = set_intersection({a.s, b.s});
    c = set_complement(a.s, b.s); // a minus b
    check(u, a.mem || b.mem, p, "x in A u B iff x in A or x in B");
    check(i, a.mem && b.mem, p, "x in A n B iff x in A and x in B");
    check(c, a.mem && !b.mem, p, "x in A \\\\ B iff x in A and not x in B");
    check(a.s->set_union(b.s), a.mem || b.mem, p, "member function set_union");
    check(a.s->set_intersection(b.s), a.mem && b.mem, p, "member function set_intersection");
    check(b.s->set_complement(a.s), a.mem && !b.mem, p, "member function set_complement");
    VERIF_END();
}
// operations on results that stay unevaluated (Intersection with Rationals, Complement of a number set)
extern "C" void harness_c27_nested()
{
    long B = verif_param("B", 1);
    Pt p;
    RCP<const Integer> pn = sym_integer("pn", -2 * B - 1, 2 * B + 1);
    p.n = pn->as_integer_class();
    p.num = Rational::from_two_ints(*pn, *integer(2));
    g_enumEnds = true; // (the test point stays symbolic)
    Operand a = operand("a", p, B, {7, 5, 6}), b = operand("b", p, B, {0, 10}), c = operand("c", p, B, {0, 6, 5});
    g_enumEnds = false;
    bool inter = verif_choice("inner", 2);
    RCP<const Set> t = inter ? set_intersection({a.s, b.s}) : set_complement(a.s, b.s);
    bool tm = inter ? (a.mem && b.mem) : (a.mem && !b.mem);
    check(t, tm, p, "inner result");
    // known finding: an unevaluated Intersection / Complement combined with Reals, Rationals or Integers recurses without end
    // (the number sets' fallbacks call the free set_union / set_intersection, which call them back): natively a stack overflow
    bool composite = is_a<Intersection>(*t) || is_a<Complement>(*t);
    bool numberset = is_a<Reals>(*c.s) || is_a<Integers>(*c.s) || is_a<Rationals>(*c.s);
    bool known = composite && numberset && verif_known("C27/number-set-with-composite-set-recursion", true);
    switch (verif_choice("outer", 4)) {
        case 0: check(set_complement(c.s, t), c.mem && !tm, p, "C minus T"); break;
        case 1: check(set_complement(t, c.s), tm && !c.mem, p, "T minus C"); break;
        case 2: check(set_union({t, c.s}), tm || c.mem, p, "T u C"); break;
        default: check(set_intersection({t, c.s}), tm && c.mem, p, "T n C"); break;
    }
    if (known)
        verif_known_end();
    VERIF_END();
}
extern "C" void harness_c27_ternary()
{
    long B = verif_param("B", 2);
    Pt p;
    RCP<const Integer> pn = sym_integer("pn", -2 * B - 1, 2 * B + 1);
    p.n = pn->as_integer_class();
    p.num = Rational::from_two_ints(*pn, *integer(2));
    Operand a = operand("a", p, B), b = operand("b", p, B), c = operand("c", p, B);
    check(set_union({a.s, set_intersection({b.s, c.s})}), a.mem || (b.mem && c.mem), p, "A u (B n C)");
    check(set_intersection({a.s, set_union({b.s, c.s})}), a.mem && (b.mem || c.mem), p, "A n (B u C)");
    check(set_complement(set_union({a.s, b.s}), c.s), (a.mem || b.mem) && !c.mem, p, "(A u B) \\\\ C");
    check(set_complement(a.s, set_complement(b.s, c.s)), a.mem && !(b.mem && !c.mem), p, "A \\\\ (B \\\\ C)");
    check(set_union({a.s, b.s, c.s}), a.mem || b.mem || c.mem, p, "A u B u C");
    check(set_intersection({a.s, b.s, c.s}), a.mem && b.mem && c.mem, p, "A n B n C");
    VERIF_END();
}
// sup, inf, boundary, interior, closure of a union of two intervals
extern "C" void harness_c27_topology()
{
    long B = verif_param("B", 2);
    Pt p;
    RCP<const Integer> pn = sym_integer("pn", -2 * B - 1, 2 * B + 1);
    p.n = pn->as_integer_class();
    p.num = Rational::from_two_ints(*pn, *integer(2));
    RCP<const Integer> a = sym_integer("a", -B, B), b = sym_integer("b", -B, B), c = sym_integer("c", -B, B), d = sym_integer("d", -B, B);
    verif_assume(a->as_integer_class() < b->as_integer_class() && c->as_integer_class() < d->as_integer_class());
    bool l1 = verif_choice("l1", 2), r1 = verif_choice("r1", 2), l2 = verif_choice("l2", 2), r2 = verif_choice("r2", 2);
    RCP<const Set> s = set_union({interval(a, b, l1, r1), interval(c, d, l2, r2)});
    integer_class a2 = a->as_integer_class() * 2, b2 = b->as_integer_class() * 2, c2 = c->as_integer_class() * 2, d2 = d->as_integer_class() * 2;
    bool in1c = p.n >= a2 && p.n <= b2, in2c = p.n >= c2 && p.n <= d2, in1o = p.n > a2 && p.n < b2, in2o = p.n > c2 && p.n < d2;
    bool in1 = (l1 ? p.n > a2 : p.n >= a2) && (r1 ? p.n < b2 : p.n <= b2), in2 = (l2 ? p.n > c2 : p.n >= c2) && (r2 ? p.n < d2 : p.n <= d2);
    // closure of a finite union of intervals is the union of the closed intervals; interior = points with a neighbourhood inside
    check(closure(*s), in1c || in2c, p, "closure is the union of the closed intervals");
    // interior: interior of each interval, plus a shared end point that both intervals cover from either side
    bool glue = (p.n == b2 && p.n == c2 && (!r1 || !l2)) || (p.n == d2 && p.n == a2 && (!r2 || !l1));
    check(interior(*s), in1o || in2o || glue || (in1 && in2o) || (in2 && in1o), p, "interior is the set of points with a neighbourhood inside the set");
    bool inS = in1 || in2;
    bool inInt = in1o || in2o || glue || (in1 && in2o) || (in2 && in1o);
    check(boundary(*s), (in1c || in2c) && !inInt, p, "boundary is closure minus interior");
    (void)inS;
    VERIF_END();
}
