// C40 — API workloads are memory-safe and leak-free.  Every load/store of the workload is checked by the engine's memory monitors
// (bounds, use-after-free, double free, invalid free) on every path, for all values of the symbolic leaves; at the end of the
// harness every heap object allocated by the workload must be freed or still reachable from a global (leak monitor, param leak=1).
#include "vsym.h"
#include <symengine/visitor.h>
#include <symengine/parser.h>
#include <symengine/matrix.h>
#include <symengine/sets.h>
#include <symengine/solve.h>
#include <symengine/polys/uintpoly.h>
#include <symengine/polys/basic_conversions.h>
#include <symengine/series_generic.h>
#include <symengine/derivative.h>
using namespace vs;

static RCP<const Basic> pick(const vec_basic &pool, const char *name)
{
    return pool[verif_choice(name, pool.size())];
}
static void workload(int steps)
{
    RCP<const Symbol> x = symbol("x"), y = symbol("y");
    vec_basic pool = {x, y, sym_integer("c", -2, 2), Rational::from_two_ints(*sym_integer("n", -3, 3), *integer(2))};
    for (int s = 0; s < steps; s++) {
        std::string t = "s" + std::to_string(s);
        RCP<const Basic> a = pick(pool, (t + "a").c_str()), b = pick(pool, (t + "b").c_str()), r;
        try {
            switch (verif_choice((t + "op").c_str(), 16)) {
                case 0: r = add(a, b); break;
                case 1: r = mul(a, b); break;
                case 2: r = pow(a, b); break;
                case 3: r = div(a, b); break;
                case 4: r = sin(a); break;
                case 5: r = exp(sub(a, b)); break;
                case 6: r = a->diff(x); break;
                case 7: r = expand(pow(add(a, b), integer(2))); break;
                case 8: {
                    map_basic_basic m;
                    m[x] = add(y, one);
                    r = a->subs(m);
                    break;
                }
                case 9: r = parse(a->__str__()); break;
                case 10: {
                    RCP<const Basic> p = expand(add(mul(a, x), b));
                    r = from_basic<UIntPoly>(p, x)->as_symbolic(); // throws for non-polynomial / non-integer input
                    break;
                }
                case 11: {
                    DenseMatrix M(2, 2, {a, b, b, add(a, one)});
                    r = M.det();
                    DenseMatrix I(2, 2);
                    if (!eq(*r, *zero) && is_a_Number(*r))
                        M.inv(I);
                    break;
                }
                case 12: {
                    RCP<const Set> A = finiteset({a, b}), B = interval(integer(0), integer(2), false, true);
                    r = A->set_union(B)->set_intersection(finiteset({b, one}));
                    break;
                }
                case 13: r = set_union({solve_poly(add(mul(a, x), b), x), solve_poly(add(pow(x, integer(2)), integer(-4)), x)}); break;
                case 14: {
                    umap_int_basic ser = series(add(a, sin(x)), x, 3)->as_dict();
                    r = integer((long)ser.size());
                    break;
                }
                default: {
                    RCP<const Basic> f = function_symbol("f", a);
                    r = f->diff(x)->subs({{x, b}});
                    break;
                }
            }
        } catch (SymEngineException &) {
            r = a; // a library exception is a legal outcome; what was allocated on the way must still be released
        } catch (std::exception &) {
            r = a;
        }
        std::string str = r->__str__(); // printing every result
        (void)r->hash();
        pool.push_back(r);
    }
}
extern "C" void harness_c40_workload()
{
    workload((int)verif_param("steps", 2));
    VERIF_END(); // all workload objects are out of scope here; the engine's leak monitor runs when the harness returns
}
