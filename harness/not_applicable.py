# reasons for properties that are not claimed (see DESIGN.md section 5)
REASONS = {
    "C45": "MPFR/MPC evaluation: mpc.h is not installed so eval_mpc/complex_mpc cannot be compiled here, and correctness-to-the-requested-precision of MPFR/MPC's native transcendental code is not encodable for an SMT solver (neither bit-blasting nor reals with uninterpreted functions decide correct rounding at arbitrary precision)",
}
