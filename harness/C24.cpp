// C24 — dense matrix algebra over exact numbers agrees with exact rational linear algebra
#include "vsym.h"
#include <symengine/matrix.h>
using namespace vs;

static unsigned N;
// symbolic n x n integer matrix; entries listed in `fixed` (quick 3x3) come from a small table instead
static DenseMatrix sym_matrix(const std::string &tag, unsigned r, unsigned c, long B, unsigned nsym)
{
    vec_basic e;
    for (unsigned i = 0; i < r * c; i++) {
        if (i < nsym)
            e.push_back(sym_integer(tag + std::to_string(i), -B, B));
        else {
            static const long tab[] = {0, 1, -1, 2};
            e.push_back(integer(tab[verif_choice((tag + "t" + std::to_string(i)).c_str(), 4)]));
        }
    }
    return DenseMatrix(r, c, e);
}
static integer_class I_(const DenseMatrix &A, unsigned i, unsigned j)
{
    return down_cast<const Integer &>(*A.get(i, j)).as_integer_class();
}
static integer_class leibniz(const DenseMatrix &A)
{
    if (A.nrows() == 1)
        return I_(A, 0, 0);
    if (A.nrows() == 2)
        return I_(A, 0, 0) * I_(A, 1, 1) - I_(A, 0, 1) * I_(A, 1, 0);
    return I_(A, 0, 0) * (I_(A, 1, 1) * I_(A, 2, 2) - I_(A, 1, 2) * I_(A, 2, 1)) - I_(A, 0, 1) * (I_(A, 1, 0) * I_(A, 2, 2) - I_(A, 1, 2) * I_(A, 2, 0))
           + I_(A, 0, 2) * (I_(A, 1, 0) * I_(A, 2, 1) - I_(A, 1, 1) * I_(A, 2, 0));
}
static bool mat_eq(const DenseMatrix &A, const DenseMatrix &B)
{
    if (A.nrows() != B.nrows() || A.ncols() != B.ncols())
        return false;
    for (unsigned i = 0; i < A.nrows(); i++)
        for (unsigned j = 0; j < A.ncols(); j++)
            if (!eq(*A.get(i, j), *B.get(i, j)))
                return false;
    return true;
}
static DenseMatrix identity(unsigned n)
{
    DenseMatrix Id(n, n);
    eye(Id);
    return Id;
}
static DenseMatrix matmul(const DenseMatrix &A, const DenseMatrix &B)
{
    DenseMatrix C(A.nrows(), B.ncols());
    mul_dense_dense(A, B, C);
    return C;
}
extern "C" void harness_c24_det_inv()
{
    N = (unsigned)verif_param("n", 2);
    DenseMatrix A = sym_matrix("a", N, N, verif_param("B", 2), (unsigned)verif_param("nsym", 4));
    integer_class d = leibniz(A);
    RCP<const Basic> d1 = det_bareis(A), d2 = det_berkowitz(A), d3 = A.det();
    verif_assert(is_a<Integer>(*d1) && down_cast<const Integer &>(*d1).as_integer_class() == d, "det_bareis equals the Leibniz determinant");
    verif_assert(is_a<Integer>(*d2) && down_cast<const Integer &>(*d2).as_integer_class() == d, "det_berkowitz equals the Leibniz determinant");
    verif_assert(eq(*d3, *d1), "DenseMatrix::det agrees");
    if (d != 0) {
        // the fraction-free LU routines do not pivot: a vanishing leading principal minor of a non-singular matrix breaks them
        bool minors0 = I_(A, 0, 0) == 0 || (N == 3 && (I_(A, 0, 0) * I_(A, 1, 1) - I_(A, 0, 1) * I_(A, 1, 0)) == 0);
        int alg = (int)verif_choice("alg", 4);
        bool known = alg == 0 && minors0 && verif_known("C24/fraction-free-LU-does-not-pivot", true);
        DenseMatrix Bm(N, N);
        if (alg == 0)
            inverse_fraction_free_LU(A, Bm);
        else if (alg == 1)
            inverse_gauss_jordan(A, Bm);
        else if (alg == 2)
            inverse_pivoted_LU(A, Bm);
        else
            A.inv(Bm);
        verif_assert(mat_eq(matmul(A, Bm), identity(N)), "A * inverse(A) == I");
        verif_assert(mat_eq(matmul(Bm, A), identity(N)), "inverse(A) * A == I");
        if (known)
            verif_known_end();
        // linear solve A x = b
        DenseMatrix b = sym_matrix("b", N, 1, 3, N), x(N, 1);
        int sa = (int)verif_choice("solver", 3);
        bool known2 = sa == 0 && minors0 && verif_known("C24/fraction-free-LU-does-not-pivot", true);
        if (sa == 0)
            fraction_free_LU_solve(A, b, x);
        else if (sa == 1)
            pivoted_LU_solve(A, b, x);
        else
            fraction_free_gauss_jordan_solve(A, b, x);
        verif_assert(mat_eq(matmul(A, x), b), "A * solve(A, b) == b");
        if (known2)
            verif_known_end();
    }
    VERIF_END();
}
// 3x3 systems whose elimination needs a row exchange after the first step: A = [[1, a, b], [1, a, c], [d, e, f]] (the second
// pivot vanishes), symbolic a..f and right-hand side; Gauss-Jordan solve and inverse, pivoted LU solve
extern "C" void harness_c24_pivot3()
{
    long B = verif_param("B", 1);
    auto en = [&](const char *n) { return integer(-B + (long)verif_choice(n, 2 * B + 1)); }; // one path per value
    RCP<const Integer> a = en("a"), d = en("d"), e = en("e"), f = en("f"), b = sym_integer("b", -B, B), c = sym_integer("c", -B, B);
    DenseMatrix A(3, 3, {integer(1), a, b, integer(1), a, c, d, e, f});
    integer_class det = leibniz(A);
    verif_assume(det != 0);
    DenseMatrix rhs = sym_matrix("r", 3, 1, 1, 3), x(3, 1);
    int alg = (int)verif_choice("alg", 3);
    if (alg == 0) {
        fraction_free_gauss_jordan_solve(A, rhs, x);
        verif_assert(mat_eq(matmul(A, x), rhs), "A * gauss_jordan_solve(A, b) == b (row exchange after the first step)");
    } else if (alg == 1) {
        pivoted_LU_solve(A, rhs, x);
        verif_assert(mat_eq(matmul(A, x), rhs), "A * pivoted_LU_solve(A, b) == b (row exchange after the first step)");
    } else {
        DenseMatrix Bm(3, 3);
        inverse_gauss_jordan(A, Bm);
        verif_assert(mat_eq(matmul(A, Bm), identity(3)), "A * inverse_gauss_jordan(A) == I (row exchange after the first step)");
    }
    VERIF_END();
}
extern "C" void harness_c24_factor()
{
    N = (unsigned)verif_param("n", 2);
    DenseMatrix A = sym_matrix("a", N, N, verif_param("B", 2), (unsigned)verif_param("nsym", 4));
    integer_class d = leibniz(A);
    // pivoted LU: P A == L U, L unit lower triangular, U upper triangular (non-singular A)
    if (d != 0) {
        DenseMatrix Lm(N, N), Um(N, N);
        permutelist pl;
        pivoted_LU(A, Lm, Um, pl);
        DenseMatrix PA = A;
        for (auto &sw : pl)
            row_exchange_dense(PA, sw.first, sw.second);
        verif_assert(mat_eq(matmul(Lm, Um), PA), "L * U == P * A (pivoted LU)");
        for (unsigned i = 0; i < N; i++)
            for (unsigned j = 0; j < N; j++) {
                if (j > i)
                    verif_assert(eq(*Lm.get(i, j), *zero), "L is lower triangular");
                if (j < i)
                    verif_assert(eq(*Um.get(i, j), *zero), "U is upper triangular");
                if (i == j)
                    verif_assert(eq(*Lm.get(i, j), *one), "L has a unit diagonal");
            }
    }
    // LU and fraction-free LDU without pivoting need non-zero leading principal minors
    bool minors = I_(A, 0, 0) != 0 && d != 0;
    if (N == 3)
        minors = minors && (I_(A, 0, 0) * I_(A, 1, 1) - I_(A, 0, 1) * I_(A, 1, 0)) != 0;
    if (minors) {
        DenseMatrix Lm(N, N), Um(N, N);
        LU(A, Lm, Um);
        verif_assert(mat_eq(matmul(Lm, Um), A), "L * U == A");
        DenseMatrix L2(N, N), D2(N, N), U2(N, N), Dinv(N, N);
        fraction_free_LDU(A, L2, D2, U2);
        D2.inv(Dinv);
        verif_assert(mat_eq(matmul(matmul(L2, Dinv), U2), A), "L * D^-1 * U == A (fraction-free LDU)");
    }
    // transpose, sums and products against direct formulas
    DenseMatrix T(N, N);
    A.transpose(T);
    for (unsigned i = 0; i < N; i++)
        for (unsigned j = 0; j < N; j++)
            verif_assert(eq(*T.get(i, j), *A.get(j, i)), "transpose");
    DenseMatrix S(N, N);
    add_dense_dense(A, T, S);
    for (unsigned i = 0; i < N; i++)
        for (unsigned j = 0; j < N; j++)
            verif_assert(down_cast<const Integer &>(*S.get(i, j)).as_integer_class() == I_(A, i, j) + I_(A, j, i), "A + A^T entrywise");
    // symmetric case: LDL^T
    if (mat_eq(A, T) && minors) {
        DenseMatrix L3(N, N), D3(N, N), L3t(N, N);
        LDL(A, L3, D3);
        L3.transpose(L3t);
        verif_assert(mat_eq(matmul(matmul(L3, D3), L3t), A), "L * D * L^T == A (LDL)");
    }
    VERIF_END();
}
// rank and reduced row echelon form of rectangular matrices
extern "C" void harness_c24_rank()
{
    unsigned R = 2, C = 3;
    DenseMatrix A = sym_matrix("a", R, C, verif_param("B", 2), 6);
    // DenseMatrix::rank() throws NotImplementedError by design; the rank is observed through the rref pivots
    // rank by minors
    integer_class m01 = I_(A, 0, 0) * I_(A, 1, 1) - I_(A, 0, 1) * I_(A, 1, 0), m02 = I_(A, 0, 0) * I_(A, 1, 2) - I_(A, 0, 2) * I_(A, 1, 0),
                  m12 = I_(A, 0, 1) * I_(A, 1, 2) - I_(A, 0, 2) * I_(A, 1, 1);
    bool allzero = true;
    for (unsigned i = 0; i < R; i++)
        for (unsigned j = 0; j < C; j++)
            if (I_(A, i, j) != 0)
                allzero = false;
    unsigned expect = allzero ? 0 : ((m01 != 0 || m02 != 0 || m12 != 0) ? 2 : 1);
    DenseMatrix Bm(R, C);
    vec_uint pivots;
    reduced_row_echelon_form(A, Bm, pivots);
    verif_assert(pivots.size() == expect, "rref has rank-many pivots");
    for (unsigned k = 0; k < pivots.size(); k++)
        for (unsigned i = 0; i < R; i++)
            verif_assert(eq(*Bm.get(i, pivots[k]), i == k ? *one : *zero), "pivot columns of the rref are unit vectors");
    // row space preserved: every 2x2 minor of [A; B-row] structure — here: rref rows are combinations, so all 3x3 minors of the stacked 3x3 matrices vanish
    for (unsigned i = 0; i < R; i++) {
        // stacked matrix [A ; Bm row i] has rank <= rank(A): its determinant vanishes when it is 3x3
        DenseMatrix St(3, 3, {A.get(0, 0), A.get(0, 1), A.get(0, 2), A.get(1, 0), A.get(1, 1), A.get(1, 2), Bm.get(i, 0), Bm.get(i, 1), Bm.get(i, 2)});
        verif_assert(eq(*det_bareis(St), *zero), "rref rows lie in the row space of A");
    }
    VERIF_END();
}
