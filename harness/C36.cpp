// C36 — algebraic rewriting transformations preserve value (as_numer_denom, as_real_imag, conjugate)
#include "vrecipe.h"
#include <symengine/visitor.h>
using namespace vr;

// top level of n and d carries no negative exponent
static bool no_negative_powers(const Basic &b)
{
    if (is_a<Pow>(b)) {
        vec_basic a = b.get_args();
        if (is_a_Number(*a[1]) && down_cast<const Number &>(*a[1]).is_negative())
            return false;
    }
    if (is_a<Mul>(b))
        for (auto &f : b.get_args())
            if (!no_negative_powers(*f))
                return false;
    if (is_a<Rational>(b))
        return false; // a fraction left in the numerator or denominator
    return true;
}
extern "C" void harness_c36_numer_denom()
{
    Gen g;
    g.leaves = {L_X, L_Y, L_P, L_NUM, L_SYMNUM};
    g.nums = {{2, 1}, {-1, 2}, {3, 4}, {-5, 3}};
    g.unary = {O_NEG, O_POWI, O_POWQ};
    g.binary = {O_ADD, O_SUB, O_MUL, O_DIV};
    g.ipows = {2, -1, -2, 3};
    g.qpows = {{1, 2}, {-1, 2}, {-2, 3}};
    g.symB = verif_param("symB", 3);
    Recipe r;
    r.root = g.gen(r, (int)verif_param("depth", 2), "t");
    ve::Env env = ve::std_env();
    RCP<const Basic> e;
    try {
        e = build(r, r.root);
    } catch (SymEngineException &) {
        verif_assume(false);
    }
    Dual ref = eval(r, r.root, env, "");
    RCP<const Basic> n, d;
    as_numer_denom(e, outArg(n), outArg(d));
    try {
        double nv = ve::ev(*n, env), dv = ve::ev(*d, env);
        verif_assume(dv != 0.0);
        verif_assert_req(nv, ref.v * dv, "numerator == e * denominator");
    } catch (ve::Unsupported &) {
        verif_assert(false, "oracle cannot interpret a node of the result");
    }
    verif_assert(no_negative_powers(*n) && no_negative_powers(*d), "no negative exponents are left on the top level of numerator and denominator");
    VERIF_END();
}
// complex evaluation of arithmetic trees over real symbols and Gaussian rationals
struct Cx {
    double re, im;
};
static Cx cev(const Basic &b, ve::Env &env)
{
    if (is_a<Complex>(b)) {
        const Complex &c = down_cast<const Complex &>(b);
        return {verif_mpz_real(get_mpz_t(get_num(c.real_))) / verif_mpz_real(get_mpz_t(get_den(c.real_))),
                verif_mpz_real(get_mpz_t(get_num(c.imaginary_))) / verif_mpz_real(get_mpz_t(get_den(c.imaginary_)))};
    }
    if (is_a_Number(b) || is_a<Symbol>(b))
        return {ve::ev(b, env), 0.0};
    if (is_a<Constant>(b))
        return {ve::ev(b, env), 0.0};
    if (is_a<Add>(b)) {
        Cx s = {0.0, 0.0};
        for (auto &a : b.get_args()) {
            Cx t = cev(*a, env);
            s = {s.re + t.re, s.im + t.im};
        }
        return s;
    }
    if (is_a<Mul>(b)) {
        Cx p = {1.0, 0.0};
        for (auto &a : b.get_args()) {
            Cx t = cev(*a, env);
            p = {p.re * t.re - p.im * t.im, p.re * t.im + p.im * t.re};
        }
        return p;
    }
    if (is_a<Pow>(b)) {
        vec_basic a = b.get_args();
        if (is_a<Integer>(*a[1])) {
            long n = mp_get_si(down_cast<const Integer &>(*a[1]).as_integer_class());
            Cx z = cev(*a[0], env), p = {1.0, 0.0};
            for (long i = 0; i < (n < 0 ? -n : n); i++)
                p = {p.re * z.re - p.im * z.im, p.re * z.im + p.im * z.re};
            if (n < 0) {
                double m = p.re * p.re + p.im * p.im;
                p = {p.re / m, -p.im / m};
            }
            return p;
        }
        if (is_a<Rational>(*a[1]) && is_a<Integer>(*a[0]) && down_cast<const Integer &>(*a[0]).is_positive())
            return {ve::ev(b, env), 0.0}; // real radical
    }
    throw ve::Unsupported{"complex evaluation of " + b.__str__()};
}
extern "C" void harness_c36_real_imag()
{
    long B = verif_param("B", 2);
    // as_real_imag does not accept symbols ("Not Implemented"): the unevaluated structure comes from radicals
    verif_mode_real();
    ve::Env env;
    env.sqrt_only = true;
    RCP<const Integer> a = vs::sym_integer("a", -B, B), b = vs::sym_integer("b", -B, B), c = vs::sym_integer("c", -B, B);
    RCP<const Number> z = Complex::from_two_nums(*a, *b);
    RCP<const Basic> s2 = sqrt(integer(2)), s3 = sqrt(integer(3));
    RCP<const Basic> w = add(s2, mul(I, s3)); // sqrt(2) + I sqrt(3)
    RCP<const Basic> e;
    switch (verif_choice("k", 7)) {
        case 0: e = mul(z, w); break;
        case 1: e = pow(w, integer(2)); break;
        case 2: e = add(mul(z, pow(w, integer(2))), mul(c, s2)); break;
        case 3: e = pow(add(w, c), integer(-1)); break;
        case 4: e = mul(pow(add(z, s2), integer(3)), s3); break;
        case 6: e = pow(add(w, c), integer(-2)); break;
        default: e = mul(add(z, w), add(w, c)); break;
    }
    RCP<const Basic> re, im;
    as_real_imag(e, outArg(re), outArg(im));
    try {
        Cx v = cev(*e, env);
        verif_assert_req(ve::ev(*re, env), v.re, "real part of as_real_imag");
        verif_assert_req(ve::ev(*im, env), v.im, "imaginary part of as_real_imag");
        // conjugate
        Cx c = cev(*conjugate(z), env);
        Cx zz = cev(*z, env);
        verif_assert_req(c.re, zz.re, "conjugate keeps the real part");
        verif_assert_req(c.im, -zz.im, "conjugate negates the imaginary part");
    } catch (ve::Unsupported &) {
        verif_assert(false, "oracle cannot interpret a node of the result");
    }
    VERIF_END();
}
