// C01 — equal expressions have equal hashes
#include "vuniverse.h"
using namespace vu;

// pairs of numbers of every kind, symbolic payloads (bv-mode integers, all 2^64 double patterns)
extern "C" void harness_c01_pairs()
{
    int lo = (int)verif_param("tlo", 0), hi = (int)verif_param("thi", T_COUNT);
    int ta = lo + (int)verif_choice("ta", hi - lo);
    int tb = verif_param("same", 1) ? ta : lo + (int)verif_choice("tb", hi - lo);
    RCP<const Basic> a = build(ta, "a"), b = build(tb, "b");
    bool e = eq(*a, *b);
    bool known = false;
    if (e) {
        if (ta == T_DBL || ta == T_CDBL)
            known = verif_known("C01/double-signed-zero", true);
        if (ta == T_MINT0)
            known = verif_known("C01/mintpoly-constant-varset", true);
        verif_assert(a->hash() == b->hash(), "eq(a,b) implies hash(a) == hash(b)");
        // hash-keyed containers: equal keys collapse
        if (verif_param("containers", 0)) {
            umap_basic_num m;
            m[a] = one;
            m[b] = one;
            verif_assert(m.size() == 1, "umap_basic_num holds one entry for equal keys");
        }
        if (known)
            verif_known_end();
    }
    verif_assert(eq(*b, *a) == e, "eq is symmetric");
    VERIF_END();
}
// cross-kind pairs: eq must be false or hashes equal (cheap, all T^2 pairs)
extern "C" void harness_c01_cross()
{
    int ta = (int)verif_choice("ta", T_COUNT), tb = (int)verif_choice("tb", T_COUNT);
    verif_assume(verif_param("bothorders", 0) ? ta != tb : ta < tb); // eq is checked to be symmetric in harness_c01_pairs
    RCP<const Basic> a = build(ta, "a"), b = build(tb, "b");
    if (eq(*a, *b)) {
        bool known = ((ta == T_ADD && tb == T_ADD2) || (ta == T_ADD2 && tb == T_ADD)) ? false : false;
        (void)known;
        verif_assert(a->hash() == b->hash(), "eq(a,b) implies hash(a) == hash(b) (different constructions)");
    }
    VERIF_END();
}
