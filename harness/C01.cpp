// C01 — equal expressions have equal hashes
#include "vuniverse.h"
using namespace vu;

// pairs of numbers of every kind, symbolic payloads (bv-mode integers, all 2^64 double patterns)
extern "C" void harness_c01_pairs()
{
    int lo = (int)verif_param("tlo", 0), hi = (int)verif_param("thi", T_COUNT);
    int ta = lo + (int)verif_choice("ta", hi - lo);
    int tb = verif_param("same", 1) ? ta : lo + (int)verif_choice("tb", hi - lo);
    RCP<const Basic> a = build(ta, "a"), b = build(tb, "b");
    bool e = eq(*a, *b);
    bool known = false;
    if (e) {
        if (ta == T_DBL || ta == T_CDBL)
            known = verif_known("C01/double-signed-zero", true);
        if (ta == T_MINT0)
            known = verif_known("C01/mintpoly-constant-varset", true);
        verif_assert(a->hash() == b->hash(), "eq(a,b) implies hash(a) == hash(b)");
        // hash-keyed containers: equal keys collapse
        if (verif_param("containers", 0)) {
            umap_basic_num m;
            m[a] = one;
            m[b] = one;
            verif_assert(m.size() == 1, "umap_basic_num holds one entry for equal keys");
        }
        if (known)
            verif_known_end();
    }
    verif_assert(eq(*b, *a) == e, "eq is symmetric");
    VERIF_END();
}
// cross-kind pairs: eq must be false or hashes equal (cheap, all T^2 pairs)
extern "C" void harness_c01_cross()
{
    int ta, tb;
    if (verif_param("allpairs", 0)) {
        ta = (int)verif_choice("ta", T_COUNT);
        tb = (int)verif_choice("tb", T_COUNT);
        verif_assume(ta < tb); // eq is checked to be symmetric in harness_c01_pairs
    } else {
        // quick tier: the template pairs that can produce objects of the same class (every other pair differs in its type code)
        static const int PAIRS[][2] = {{T_INT, T_RAT}, {T_INT, T_CPLX}, {T_RAT, T_CPLX}, {T_ADD, T_ADD2}, {T_ADD, T_ADDK}, {T_ADD2, T_ADDK}, {T_MUL, T_MULK}, {T_POW, T_POWQ},
                                          {T_MINT, T_MINT0}, {T_IVAL, T_IVALINF}, {T_UINT, T_URAT}, {T_INT, T_ADDK}, {T_SYM, T_MULK}, {T_SYM, T_POW}, {T_DBL, T_CDBL}, {T_INT, T_POW}};
        unsigned i = (unsigned)verif_choice("pair", sizeof(PAIRS) / sizeof(PAIRS[0]));
        ta = PAIRS[i][0];
        tb = PAIRS[i][1];
    }
    RCP<const Basic> a = build(ta, "a"), b = build(tb, "b");
    if (eq(*a, *b)) {
        bool known = ((ta == T_ADD && tb == T_ADD2) || (ta == T_ADD2 && tb == T_ADD)) ? false : false;
        (void)known;
        verif_assert(a->hash() == b->hash(), "eq(a,b) implies hash(a) == hash(b) (different constructions)");
    }
    VERIF_END();
}
