// C19 — serialization round-trips exactly.  SymEngine's serialization code (serialize-cereal.h and the statements of
// Basic::dumps / Basic::loads / DenseMatrix::dumps / loads) runs on memory-backed twins of cereal's portable binary archives
// (vlib/vcereal.h: same byte format; libstdc++ stream internals are not modelled by the executor).
#include "vuniverse.h"
#include "vcereal.h"
#include <symengine/matrix.h>
#include <symengine/logic.h>
#include <symengine/sets.h>
#include <symengine/derivative.h>
#include <cstring>
using namespace vs;

static void roundtrip(const RCP<const Basic> &e, const char *what)
{
    std::vector<char> bytes;
    try {
        bytes = vser::dumps(e);
    } catch (SymEngineException &) {
        return; // this class does not support serialization: nothing is claimed
    }
    if (!verif_symbolic_exec() && !is_a<RealDouble>(*e) && !is_a<ComplexDouble>(*e)) {
        // native replay: the memory-backed archives and cereal's real stream archives read each other's output (the bytes
        // themselves contain object addresses of temporaries and differ from one dump to the next)
        std::string real = e->dumps();
        std::vector<char> rb(real.begin(), real.end());
        verif_assert(eq(*vser::loads(rb), *e), "the memory-backed reader reads what the real Basic::dumps wrote");
        verif_assert(eq(*Basic::loads(std::string(bytes.begin(), bytes.end())), *e), "the real Basic::loads reads what the memory-backed writer wrote");
    }
    RCP<const Basic> b;
    try {
        b = vser::loads(bytes);
    } catch (std::exception &) {
        verif_assert(false, "loads rejects bytes produced by dumps");
        return;
    }
    verif_assert(b->get_type_code() == e->get_type_code(), "the loaded object has the class of the original");
    bool floating = is_a<RealDouble>(*e) || is_a<ComplexDouble>(*e); // compared bit for bit below (eq(nan, nan) is false)
    if (!floating) {
        verif_assert(eq(*b, *e), what);
        verif_assert(b->hash() == e->hash(), "the loaded object has the hash of the original");
    }
    if (is_a<RealDouble>(*e) && is_a<RealDouble>(*b)) {
        double x = down_cast<const RealDouble &>(*e).i, y = down_cast<const RealDouble &>(*b).i;
        verif_assert(std::memcmp(&x, &y, 8) == 0, "doubles round-trip bit for bit");
    }
    if (is_a<ComplexDouble>(*e) && is_a<ComplexDouble>(*b)) {
        std::complex<double> x = down_cast<const ComplexDouble &>(*e).i, y = down_cast<const ComplexDouble &>(*b).i;
        verif_assert(std::memcmp(&x, &y, 16) == 0, "complex doubles round-trip bit for bit");
    }
}
extern "C" void harness_c19_universe()
{
    int t = (int)verif_choice("t", vu::T_COUNT);
    RCP<const Basic> e = vu::build(t, "a");
    roundtrip(e, "loads(dumps(e)) == e");
    VERIF_END();
}
// one representative (with symbolic numeric slots) of the other serialisable classes; shared subexpressions
extern "C" void harness_c19_classes()
{
    RCP<const Basic> x = symbol("x"), y = symbol("y");
    RCP<const Integer> c = sym_integer("c", -2, 2);
    RCP<const Basic> t = add(x, c); // shared subterm
    RCP<const Boolean> p = Lt(x, c), q = Ne(y, integer(1));
    RCP<const Set> iv = interval(integer(-1), integer(3), true, false);
    RCP<const Basic> e;
    switch (verif_choice("k", 34)) {
        case 0: e = dummy("d"); break;
        case 1: e = mul(pi, add(E, EulerGamma)); break;
        case 2: e = add(Catalan, GoldenRatio); break;
        case 3: e = cos(t); break;
        case 4: e = add(tan(t), add(cot(t), add(sec(t), csc(t)))); break;
        case 5: e = add(asin(x), add(acos(x), add(atan(x), add(acot(x), add(asec(x), acsc(x)))))); break;
        case 6: e = add(sinh(t), add(cosh(t), add(tanh(t), add(coth(t), add(sech(t), csch(t)))))); break;
        case 7: e = add(asinh(x), add(acosh(x), add(atanh(x), add(acoth(x), add(asech(x), acsch(x)))))); break;
        case 8: e = add(log(t), add(exp(t), lambertw(x))); break;
        case 9: e = add(gamma(t), add(loggamma(x), add(zeta(x), dirichlet_eta(x)))); break;
        case 10: e = add(erf(t), erfc(x)); break;
        case 11: e = add(abs(t), add(sign(x), add(floor(x), add(ceiling(x), truncate(x))))); break;
        case 12: e = conjugate(t); break;
        case 13: e = atan2(x, t); break;
        case 14: e = add(beta(x, y), add(lowergamma(x, y), add(uppergamma(x, y), polygamma(x, y)))); break;
        case 15: e = add(kronecker_delta(x, y), levi_civita({x, y, t})); break;
        case 16: e = max({x, y, t}); break;
        case 17: e = min({x, t}); break;
        case 18: e = function_symbol("f", {x, t}); break;
        case 19: e = function_symbol("g", t)->diff(rcp_static_cast<const Symbol>(x)); break;
        case 20: e = Subs::create(function_symbol("f", x), {{x, t}}); break;
        case 21: e = p; break;
        case 22: e = Eq(t, y); break;
        case 23: e = logical_and({p, q}); break;
        case 24: e = logical_or({p, q}); break;
        case 25: e = logical_not(logical_and({p, q})); break;
        case 26: e = logical_xor({p, q}); break;
        case 27: e = piecewise({{t, p}, {mul(x, y), boolTrue}}); break;
        case 28: e = contains(x, iv); break;
        case 29: e = set_union({iv, finiteset({c, integer(7)})}); break;
        case 30: e = set_complement(reals(), finiteset({c})); break;
        case 31: e = imageset(x, mul(x, x), iv); break;
        case 32: e = conditionset(x, logical_and({p, contains(x, iv)})); break;
        default: e = add(pow(t, integer(2)), mul(sin(t), t)); break; // t occurs three times
    }
    roundtrip(e, "loads(dumps(e)) == e");
    // shared subexpressions: two references to one object are again one object after the round trip
    RCP<const Basic> sh = function_symbol("h", {t, t});
    RCP<const Basic> back = vser::loads(vser::dumps(sh));
    vec_basic a = back->get_args();
    verif_assert(a.size() == 2 && a[0].get() == a[1].get(), "a subexpression referenced twice is restored as one shared object");
    VERIF_END();
}
extern "C" void harness_c19_matrix()
{
    unsigned r = 1 + (unsigned)verif_choice("r", 2), cdim = 1 + (unsigned)verif_choice("c", 3);
    RCP<const Basic> x = symbol("x");
    vec_basic v;
    for (unsigned i = 0; i < r * cdim; i++)
        v.push_back(i % 2 ? (RCP<const Basic>)add(x, sym_integer("e" + std::to_string(i), -2, 2)) : (RCP<const Basic>)sym_integer("e" + std::to_string(i), -2, 2));
    DenseMatrix M(r, cdim, v);
    // the statements of DenseMatrix::dumps / DenseMatrix::loads on the memory-backed archives
    cereal::VOut::buf().clear();
    static char dummy[512];
    unsigned short major = SYMENGINE_MAJOR_VERSION, minor = SYMENGINE_MINOR_VERSION;
    RCPBasicAwareOutputArchive<cereal::VOut>{*reinterpret_cast<std::ostream *>(dummy)}(major, minor, M.row_, M.col_, M.m_);
    cereal::VIn::buf() = cereal::VOut::buf();
    cereal::VIn::pos() = 0;
    unsigned short ma, mi;
    unsigned row, col;
    vec_basic obj;
    RCPBasicAwareInputArchive<cereal::VIn> ia{*reinterpret_cast<std::istream *>(dummy)};
    ia(ma, mi);
    verif_assert(ma == major && mi == minor, "version header round-trips");
    ia(row, col, obj);
    DenseMatrix L(row, col, std::move(obj));
    verif_assert(L.nrows() == r && L.ncols() == cdim, "matrix dimensions round-trip");
    verif_assert(L == M, "matrix contents round-trip");
    VERIF_END();
}
