// C29 — number comparisons agree with numeric order
#include "vsym.h"
#include <symengine/logic.h>
#include <symengine/subs.h>
using namespace vs;

// real number of kind k: 0 Integer, 1 Rational, 2 RealDouble (any non-NaN pattern), 3 +-oo
static RCP<const Number> realnum(int k, const std::string &tag, long nmax)
{
    switch (k) {
        case 0:
            return sym_integer(nm(tag, "i"), -nmax, nmax, true);
        case 1: {
            // denominators 1, 2, 4 (exactly representable in binary floating point, so that the comparison with a double has one
            // unambiguous numeric answer) and 3 (only compared with exact numbers, see harness)
            RCP<const Integer> n = sym_integer(nm(tag, "n"), -nmax, nmax, true);
            static const long dens[] = {1, 2, 4, 3};
            long d = dens[verif_choice(nm(tag, "dsel").c_str(), 4)];
            return Rational::from_two_ints(*n, *integer(d));
        }
        case 2: {
            double d = verif_double(nm(tag, "f").c_str());
            verif_assume(d == d);
            return real_double(d);
        }
        default:
            return verif_choice(nm(tag, "neg").c_str(), 2) ? NegInf : Inf;
    }
}
// exact three-way numeric comparison of two real numbers, computed independently of SymEngine's arithmetic:
// integers/rationals by cross-multiplication of machine integers, doubles by IEEE comparison with the exactly converted value
static int num_cmp(const Number &a, int ka, const Number &b, int kb)
{
    auto inf_sign = [](const Number &n) { return down_cast<const Infty &>(n).is_negative_infinity() ? -1 : 1; };
    if (ka == 3 && kb == 3)
        return inf_sign(a) < inf_sign(b) ? -1 : inf_sign(a) > inf_sign(b) ? 1 : 0;
    if (ka == 3)
        return (kb == 2 && std::isinf(down_cast<const RealDouble &>(b).i) && ((down_cast<const RealDouble &>(b).i > 0) == (inf_sign(a) > 0))) ? 0 : inf_sign(a);
    if (kb == 3)
        return -num_cmp(b, kb, a, ka);
    auto nd = [](const Number &n, int k, long &num, long &den) {
        if (k == 0) {
            num = mp_get_si(down_cast<const Integer &>(n).as_integer_class());
            den = 1;
        } else if (is_a<Integer>(n)) {
            num = mp_get_si(down_cast<const Integer &>(n).as_integer_class());
            den = 1;
        } else {
            num = mp_get_si(get_num(down_cast<const Rational &>(n).as_rational_class()));
            den = mp_get_si(get_den(down_cast<const Rational &>(n).as_rational_class()));
        }
    };
    if (ka != 2 && kb != 2) {
        long an, ad, bn, bd;
        nd(a, ka, an, ad);
        nd(b, kb, bn, bd);
        long l = an * bd, r = bn * ad;
        return l < r ? -1 : l > r ? 1 : 0;
    }
    if (ka == 2 && kb == 2) {
        double x = down_cast<const RealDouble &>(a).i, y = down_cast<const RealDouble &>(b).i;
        return x < y ? -1 : x > y ? 1 : 0;
    }
    if (ka == 2) {
        double x = down_cast<const RealDouble &>(a).i;
        long bn, bd;
        nd(b, kb, bn, bd);
        // x ? bn/bd  <=>  x*bd ? bn   (bd > 0, small: x*bd and the conversion of bn are exact for |bn| < 2^53 unless x*bd rounds;
        // rounding cannot change the comparison with an integer because |bn| is small and rounding is monotone)
        double l = x * (double)bd, r = (double)bn;
        return l < r ? -1 : l > r ? 1 : 0;
    }
    return -num_cmp(b, kb, a, ka);
}
static bool truth(const RCP<const Boolean> &b, bool &definite)
{
    definite = is_a<BooleanAtom>(*b);
    return definite && down_cast<const BooleanAtom &>(*b).get_val();
}
extern "C" void harness_c29_pairs()
{
    int ka = (int)verif_choice("ka", 4), kb = (int)verif_choice("kb", 4);
    long nmax = verif_param("nmax", 6);
    RCP<const Number> a = realnum(ka, "a", nmax), b = realnum(kb, "b", nmax);
    // outside the claim: thirds against doubles (the double nearest to n/3 is not n/3), IEEE infinities against oo
    auto third = [](const Number &n) { return is_a<Rational>(n) && mp_get_si(get_den(down_cast<const Rational &>(n).as_rational_class())) == 3; };
    auto infd = [](const Number &n) { return is_a<RealDouble>(n) && std::isinf(down_cast<const RealDouble &>(n).i); };
    verif_assume(!((ka == 2 && third(*b)) || (kb == 2 && third(*a))));
    verif_assume(!((ka == 3 && infd(*b)) || (kb == 3 && infd(*a))));
    int c = num_cmp(*a, ka, *b, kb);
    bool d1, d2, d3, d4, d5, d6;
    bool lt = truth(Lt(a, b), d1), le = truth(Le(a, b), d2), gt = truth(Gt(a, b), d3), ge = truth(Ge(a, b), d4);
    bool e = truth(Eq(a, b), d5), ne = truth(Ne(a, b), d6);
    verif_assert(d1 && d2 && d3 && d4 && d5 && d6, "relationals on two real numbers are decided");
    verif_assert(lt == (c < 0), "Lt(a,b) is the numeric relation");
    verif_assert(le == (c <= 0), "Le(a,b) is the numeric relation");
    verif_assert(gt == (c > 0), "Gt(a,b) is the numeric relation");
    verif_assert(ge == (c >= 0), "Ge(a,b) is the numeric relation");
    bool d7, d8;
    bool ltba = truth(Lt(b, a), d7), leba = truth(Le(b, a), d8);
    verif_assert(le == !ltba, "Le(a,b) == not Lt(b,a)");
    verif_assert(ge == leba, "Ge(a,b) == Le(b,a)");
    bool d9, d10;
    verif_assert(truth(Eq(b, a), d9) == e, "Eq is symmetric");
    verif_assert(truth(Ne(b, a), d10) == ne, "Ne is symmetric");
    verif_assert(e == !ne, "Ne is the negation of Eq");
    VERIF_END();
}
// relationals on symbolic arguments become the same truth values once numbers are substituted
extern "C" void harness_c29_subs()
{
    int ka = (int)verif_choice("ka", 3), kb = (int)verif_choice("kb", 3);
    long nmax = verif_param("nmax", 6);
    RCP<const Number> a = realnum(ka, "a", nmax), b = realnum(kb, "b", nmax);
    RCP<const Basic> x = symbol("x"), y = symbol("y");
    auto third = [](const Number &n) { return is_a<Rational>(n) && mp_get_si(get_den(down_cast<const Rational &>(n).as_rational_class())) == 3; };
    verif_assume(!((ka == 2 && third(*b)) || (kb == 2 && third(*a))));
    int c = num_cmp(*a, ka, *b, kb);
    map_basic_basic m;
    m[x] = a;
    m[y] = b;
    int op = (int)verif_choice("op", 4);
    RCP<const Basic> r = op == 0 ? Lt(x, y) : op == 1 ? Le(x, y) : op == 2 ? Eq(x, y) : Ne(x, y);
    RCP<const Basic> s = r->subs(m);
    verif_assert(is_a<BooleanAtom>(*s), "substituted relational is decided");
    bool v = is_a<BooleanAtom>(*s) && down_cast<const BooleanAtom &>(*s).get_val();
    bool d;
    bool direct = op == 0 ? truth(Lt(a, b), d) : op == 1 ? truth(Le(a, b), d) : op == 2 ? truth(Eq(a, b), d) : truth(Ne(a, b), d);
    verif_assert(v == direct, "subs into a symbolic relational equals the relational on the numbers");
    if (op < 2)
        verif_assert(v == (op == 0 ? c < 0 : c <= 0), "substituted relational is the numeric truth");
    VERIF_END();
}

// multi-step: a relational with ONE symbolic side against a number (also an infinity) is built first, then the symbol is
// substituted; the result must be the relational on the two numbers
extern "C" void harness_c29_steps()
{
    int ka = (int)verif_choice("ka", 4), kb = (int)verif_choice("kb", 4);
    long nmax = verif_param("nmax", 6);
    RCP<const Number> a = realnum(ka, "a", nmax), b = realnum(kb, "b", nmax);
    auto third = [](const Number &n) { return is_a<Rational>(n) && mp_get_si(get_den(down_cast<const Rational &>(n).as_rational_class())) == 3; };
    auto infd = [](const Number &n) { return is_a<RealDouble>(n) && std::isinf(down_cast<const RealDouble &>(n).i); };
    verif_assume(!((ka == 2 && third(*b)) || (kb == 2 && third(*a))));
    verif_assume(!((ka == 3 && infd(*b)) || (kb == 3 && infd(*a))));
    int c = num_cmp(*a, ka, *b, kb);
    RCP<const Basic> x = symbol("x");
    int op = (int)verif_choice("op", 4);
    // quick tier: the symbolic side is tied to the operator (Lt/Gt on the left, Le/Ge on the right)
    bool left = verif_param("tie_side", 0) ? (op == 0 || op == 2) : (bool)verif_choice("symbolic_left", 2);
    RCP<const Basic> r;
    if (left)
        r = op == 0 ? Lt(x, b) : op == 1 ? Le(x, b) : op == 2 ? Gt(x, b) : Ge(x, b);
    else
        r = op == 0 ? Lt(a, x) : op == 1 ? Le(a, x) : op == 2 ? Gt(a, x) : Ge(a, x);
    map_basic_basic m;
    m[x] = left ? a : b;
    RCP<const Basic> s = r->subs(m);
    verif_assert(is_a<BooleanAtom>(*s), "relational with numbers substituted is decided");
    bool v = is_a<BooleanAtom>(*s) && down_cast<const BooleanAtom &>(*s).get_val();
    bool expect = op == 0 ? c < 0 : op == 1 ? c <= 0 : op == 2 ? c > 0 : c >= 0;
    verif_assert(v == expect, "a relational built with one symbolic side and then substituted is the numeric truth");
    VERIF_END();
}
