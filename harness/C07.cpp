// C07 — arithmetic construction preserves mathematical value
#include "vrecipe.h"
#include "vmono.h"
using namespace vr;

// generic arithmetic trees: value of the constructed expression == value of the recipe, for all real x, y and positive p
extern "C" void harness_c07_trees()
{
    Gen g;
    g.leaves = {L_X, L_Y, L_P, L_NUM, L_SYMNUM};
    g.nums = {{2, 1}, {-1, 2}, {3, 1}, {-4, 1}};
    g.unary = {O_NEG, O_POWI, O_POWQ};
    g.binary = {O_ADD, O_SUB, O_MUL, O_DIV};
    g.ipows = {2, 3, -1, -2, 0};
    g.qpows = {{1, 2}, {-1, 2}, {2, 3}, {3, 2}, {1, 4}};
    g.symB = verif_param("symB", 3);
    Recipe r;
    r.root = g.gen(r, (int)verif_param("depth", 2), "t");
    ve::Env env = ve::std_env();
    RCP<const Basic> e = build_or_skip(r, r.root);
    Dual ref = eval(r, r.root, env, "");
    try {
        verif_assert_req(ve::ev(*e, env), ref.v, "the constructed expression has the value of the operations applied to the operand values");
    } catch (ve::Unsupported &u) {
        verif_assert(false, "oracle cannot interpret a node of the result");
    }
    VERIF_END();
}
// powers of products and nested powers of positive symbols, and number ** rational (perfect-power extraction): exact comparison
// of prime/symbol exponent vectors (oracle D3, vlib/vmono.h) -- holds for ALL positive p, q
static RCP<const Basic> qnum(long n, long d)
{
    return d == 1 ? (RCP<const Basic>)integer(n) : (RCP<const Basic>)Rational::from_two_ints(n, d);
}
extern "C" void harness_c07_powers()
{
    static const long QN[][2] = {{1, 2}, {-1, 2}, {1, 3}, {2, 3}, {3, 2}, {-3, 4}, {5, 6}, {2, 1}, {-1, 1}, {3, 1}, {-2, 1}, {1, 4}};
    auto pick = [&](const char *name, long &n, long &d) {
        unsigned i = (unsigned)verif_choice(name, verif_param("nexp", 12));
        n = QN[i][0];
        d = QN[i][1];
        return qnum(n, d);
    };
    RCP<const Basic> p = symbol("p"), q = symbol("q");
    vm::Mono P = vm::of_basic(*p), Q = vm::of_basic(*q);
    int shape = (int)verif_choice("shape", 5);
    RCP<const Basic> e;
    vm::Mono v;
    long an, ad, bn, bd, en, ed;
    try {
        if (shape == 0) { // (c * p^a * q^b)^e, c a positive rational with symbolic numerator
            RCP<const Integer> cn = vs::sym_integer("cn", 1, verif_param("cmax", 40));
            long cd = 1 + (long)verif_choice("cd", 3);
            RCP<const Basic> a = pick("a", an, ad), b = pick("b", bn, bd), ex = pick("e", en, ed);
            RCP<const Basic> c = Rational::from_two_ints(*cn, *integer(cd));
            e = pow(mul(c, mul(pow(p, a), pow(q, b))), ex);
            long cnv = verif_concretize(mp_get_si(cn->as_integer_class()));
            vm::Mono C = vm::mul(vm::of_long(cnv), vm::power(vm::of_long(cd), -1, 1));
            v = vm::power(vm::mul(C, vm::mul(vm::power(P, an, ad), vm::power(Q, bn, bd))), en, ed);
        } else if (shape == 1) { // p^a * p^b * q^a
            RCP<const Basic> a = pick("a", an, ad), b = pick("b", bn, bd);
            e = mul(mul(pow(p, a), pow(p, b)), pow(q, a));
            v = vm::mul(vm::mul(vm::power(P, an, ad), vm::power(P, bn, bd)), vm::power(Q, an, ad));
        } else if (shape == 2) { // (p^a)^e
            RCP<const Basic> a = pick("a", an, ad), ex = pick("e", en, ed);
            e = pow(pow(p, a), ex);
            v = vm::power(vm::power(P, an, ad), en, ed);
        } else if (shape == 3) { // (n/d)^(e) * p^a : number ** rational with perfect-power extraction
            RCP<const Integer> bn_ = vs::sym_integer("bn", 1, verif_param("B", 60));
            long bdv = 1 + (long)verif_choice("bd", 3);
            RCP<const Basic> ex = pick("e", en, ed), a = pick("a", an, ad);
            e = mul(pow(Rational::from_two_ints(*bn_, *integer(bdv)), ex), pow(p, a));
            long bnv = verif_concretize(mp_get_si(bn_->as_integer_class()));
            v = vm::mul(vm::power(vm::mul(vm::of_long(bnv), vm::power(vm::of_long(bdv), -1, 1)), en, ed), vm::power(P, an, ad));
        } else { // p^a / p^b * (1/p)^a * (p*q)^b
            RCP<const Basic> a = pick("a", an, ad), b = pick("b", bn, bd);
            e = mul(mul(div(pow(p, a), pow(p, b)), pow(div(one, p), a)), pow(mul(p, q), b));
            v = vm::mul(vm::mul(vm::mul(vm::power(P, an, ad), vm::power(P, -bn, bd)), vm::power(P, -an, ad)), vm::power(vm::mul(P, Q), bn, bd));
        }
    } catch (vm::Unsupported &) {
        verif_assume(false); // exponent combination outside the 1/12 grid: not part of the bound
    }
    bool ok = true;
    vm::Mono got;
    try {
        got = vm::of_basic(*e);
    } catch (vm::Unsupported &u) {
        ok = false;
    }
    verif_assert(ok, "the result of power rewriting is a product of rational powers");
    if (ok)
        verif_assert(got == v, "power rewriting preserves the value: same prime and symbol exponents (all positive p, q)");
    VERIF_END();
}
