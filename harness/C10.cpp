// C10 — differentiation is correct (dual-number oracle over the reals with uninterpreted elementary functions)
#include "vrecipe.h"
#include <symengine/derivative.h>
using namespace vr;

static Gen make_gen()
{
    Gen g;
    g.leaves = {L_X, L_Y, L_P, L_NUM, L_SYMNUM};
    g.nums = {{2, 1}, {-1, 2}, {3, 1}};
    g.unary = {O_NEG, O_POWI, O_POWQ, O_SIN, O_COS, O_TAN, O_EXP, O_LOG, O_SINH, O_COSH, O_TANH, O_ATAN};
    g.binary = {O_ADD, O_SUB, O_MUL, O_DIV};
    g.ipows = {2, 3, -1, -2};
    g.qpows = {{1, 2}, {-1, 2}, {2, 3}, {5, 4}};
    g.symB = verif_param("symB", 3);
    return g;
}
extern "C" void harness_c10_diff()
{
    Gen g = make_gen();
    Recipe r;
    r.root = g.gen(r, (int)verif_param("depth", 2), "t");
    ve::Env env = ve::std_env();
    RCP<const Basic> e = build_or_skip(r, r.root);
    static const char *vars[] = {"x", "y", "p"};
    const char *wrt = vars[verif_choice("wrt", 3)];
    RCP<const Symbol> s = symbol(wrt);
    Dual ref = eval(r, r.root, env, wrt);
    RCP<const Basic> d = e->diff(s);
    try {
        verif_assert_req(ve::ev(*d, env), ref.d, "diff(e, x) equals the derivative of e");
        verif_assert_req(ve::ev(*e, env), ref.v, "the constructed expression has the value of the recipe");
    } catch (ve::Unsupported &u) {
        verif_assert(false, "oracle cannot interpret a node of the result");
    }
    verif_assert(eq(*d, *e->diff(s, false)), "differentiating with and without the cache gives equal results");
    RCP<const Symbol> z = symbol("z");
    verif_assert(eq(*e->diff(z), *zero), "the derivative with respect to an absent symbol is exactly zero");
    VERIF_END();
}
// linear combinations c1*f(x) + c2*g(x) + y with symbolic integer coefficients (the Add rule with coefficients and with term
// derivatives that are themselves sums, e.g. c*tan(x) -> c + c*tan(x)**2)
extern "C" void harness_c10_linear()
{
    static const int F[] = {O_TAN, O_TANH, O_COT, O_SIN, O_EXP, O_LOG, O_ATAN, O_POWI};
    Recipe r;
    auto push = [&](Node n) { r.n.push_back(n); return (int)r.n.size() - 1; };
    auto leaf = [&](int op) { Node n; n.op = op; return push(n); };
    auto un = [&](int op, int a) { Node n; n.op = op; n.a = a; n.p = 3; return push(n); };
    auto bin = [&](int op, int a, int b) { Node n; n.op = op; n.a = a; n.b = b; return push(n); };
    auto coef = [&](const std::string &name) { Node n; n.op = L_SYMNUM; n.symnum = vs::sym_integer(name, -verif_param("symB", 3), verif_param("symB", 3)); return push(n); };
    int x1 = leaf(L_X), x2 = leaf(L_X);
    int f1 = un(F[verif_choice("f1", 8)], x1), f2 = un(F[verif_choice("f2", 8)], x2);
    // x*log(x)-like product term as second summand in half of the cases
    if (verif_choice("prod", 2))
        f2 = bin(O_MUL, leaf(L_X), f2);
    int t1 = bin(O_MUL, coef("c1"), f1), t2 = bin(O_MUL, coef("c2"), f2);
    r.root = bin(O_ADD, bin(O_ADD, t1, t2), leaf(L_Y));
    ve::Env env = ve::std_env();
    RCP<const Basic> e = build_or_skip(r, r.root);
    RCP<const Symbol> s = symbol("x");
    Dual ref = eval(r, r.root, env, "x");
    RCP<const Basic> d = e->diff(s);
    try {
        verif_assert_req(ve::ev(*d, env), ref.d, "diff(c1*f(x) + c2*g(x) + y, x) equals the derivative");
    } catch (ve::Unsupported &u) {
        verif_assert(false, "oracle cannot interpret a node of the result");
    }
    VERIF_END();
}
// unevaluated derivatives and substitutions follow the chain rule: f(g(x)) with f an undefined function
extern "C" void harness_c10_chain()
{
    Gen g = make_gen();
    g.unary = {O_NEG, O_POWI, O_SIN, O_EXP};
    g.binary = {O_ADD, O_MUL};
    Recipe r;
    r.root = g.gen(r, 1, "t");
    RCP<const Basic> inner = build_or_skip(r, r.root);
    RCP<const Symbol> x = symbol("x");
    RCP<const Basic> fx = function_symbol("f", inner);
    RCP<const Basic> d = fx->diff(x);
    RCP<const Basic> di = inner->diff(x);
    // expected: f'(inner) * inner', where f'(inner) is Subs(Derivative(f(xi), xi), xi -> inner) or Derivative(f(x), x) when inner == x
    if (eq(*di, *zero)) {
        verif_assert(eq(*d, *zero), "d/dx f(c) == 0 when the argument does not depend on x");
    } else if (eq(*inner, *x)) {
        verif_assert(is_a<Derivative>(*d), "d/dx f(x) is an unevaluated Derivative");
    } else {
        // d == Subs(...) * di : dividing out must leave a Subs/Derivative object whose substituted point is `inner`
        RCP<const Basic> q = div(d, di);
        bool shape = is_a<Subs>(*q) || is_a<Derivative>(*q);
        verif_assert(shape, "d/dx f(g(x)) == f'(g(x)) * g'(x) with f' an unevaluated derivative at g(x)");
        if (is_a<Subs>(*q)) {
            const Subs &sb = down_cast<const Subs &>(*q);
            verif_assert(sb.get_point().size() == 1 && eq(*sb.get_point()[0], *inner), "the derivative of f is taken at the inner function");
        }
    }
    VERIF_END();
}
