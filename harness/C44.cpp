// C44 — alternative printers are total and well-formed
#include "vrecipe.h"
#include <symengine/printers.h>
#include <symengine/parser.h>
#include <symengine/parser/sbml/sbml_parser.h>
using namespace vr;

static bool balanced(const std::string &s, char open, char close)
{
    long depth = 0;
    for (size_t i = 0; i < s.size(); i++) {
        if (s[i] == '\\' && i + 1 < s.size() && (s[i + 1] == open || s[i + 1] == close)) {
            i++; // escaped brace in LaTeX
            continue;
        }
        if (s[i] == open)
            depth++;
        if (s[i] == close) {
            depth--;
            if (depth < 0)
                return false;
        }
    }
    return depth == 0;
}
// MathML: every <tag ...> is closed by </tag> in stack order, <tag/> is self-closing
static bool wellformed_xml(const std::string &s)
{
    std::vector<std::string> st;
    size_t i = 0;
    while (i < s.size()) {
        if (s[i] != '<') {
            if (s[i] == '>')
                return false;
            i++;
            continue;
        }
        size_t j = s.find('>', i);
        if (j == std::string::npos)
            return false;
        std::string tag = s.substr(i + 1, j - i - 1);
        if (tag.empty())
            return false;
        if (tag[0] == '/') {
            if (st.empty() || st.back() != tag.substr(1))
                return false;
            st.pop_back();
        } else if (tag.back() != '/') {
            size_t sp = tag.find(' ');
            std::string name = sp == std::string::npos ? tag : tag.substr(0, sp);
            for (char c : name)
                if (!isalnum((unsigned char)c) && c != ':' && c != '_')
                    return false;
            st.push_back(name);
        }
        i = j + 1;
    }
    return st.empty();
}
// infinities, nan and complex numbers are outside the fragment the alternative printers (and SBML) support
static bool in_fragment(const Basic &b)
{
    if (is_a<Infty>(b) || is_a<NaN>(b) || is_a<Complex>(b) || is_a<ComplexDouble>(b))
        return false;
    for (auto &a : b.get_args())
        if (!in_fragment(*a))
            return false;
    return true;
}
static long count_sub(const std::string &s, const std::string &t)
{
    long n = 0;
    for (size_t p = s.find(t); p != std::string::npos; p = s.find(t, p + t.size()))
        n++;
    return n;
}
extern "C" void harness_c44_printers()
{
    Gen g;
    g.leaves = {L_X, L_Y, L_NUM, L_SYMNUM, L_PI};
    g.nums = {{2, 1}, {-1, 2}, {-3, 1}, {7, 3}};
    g.unary = {O_NEG, O_POWI, O_SIN, O_COS, O_TAN, O_EXP, O_LOG, O_SQRT, O_ATAN, O_SINH, O_ERF};
    g.binary = {O_ADD, O_SUB, O_MUL, O_DIV};
    g.ipows = {2, -1, -3};
    g.symB = verif_param("symB", 12);
    Recipe r;
    r.root = g.gen(r, (int)verif_param("depth", 2), "t");
    RCP<const Basic> e;
    try {
        e = build(r, r.root);
    } catch (SymEngineException &) {
        verif_assume(false);
    }
    verif_assume(in_fragment(*e));
    std::string lx = latex(*e), mm = mathml(*e), un = unicode(*e), jl = julia_str(*e);
    verif_assert(!lx.empty() && !mm.empty() && !un.empty() && !jl.empty(), "every printer returns a non-empty string");
    verif_assert(balanced(lx, '{', '}'), "LaTeX output has balanced groups");
    verif_assert(count_sub(lx, "\\left") == count_sub(lx, "\\right"), "LaTeX \\left and \\right are paired");
    verif_assert(wellformed_xml(mm), "MathML output is well-formed XML");
    verif_assert(balanced(jl, '(', ')'), "Julia output has balanced parentheses");
    // unicode box: all lines have the same display width is not checked here (multi-byte); it must end without a newline
    VERIF_END();
}
// SBML fragment: parse_sbml(sbml(e)) == e
extern "C" void harness_c44_sbml()
{
    Gen g;
    g.leaves = {L_X, L_Y, L_NUM, L_SYMNUM};
    g.nums = {{2, 1}, {-3, 1}, {5, 1}};
    g.unary = {O_NEG, O_POWI, O_SIN, O_COS, O_TAN, O_EXP, O_LOG, O_ATAN, O_SINH, O_COSH};
    g.binary = {O_ADD, O_SUB, O_MUL, O_DIV};
    g.ipows = {2, 3};
    g.symB = verif_param("symB", 12);
    Recipe r;
    r.root = g.gen(r, (int)verif_param("depth", 2), "t");
    RCP<const Basic> e;
    try {
        e = build(r, r.root);
    } catch (SymEngineException &) {
        verif_assume(false);
    }
    verif_assume(in_fragment(*e));
    std::string s = sbml(*e);
    RCP<const Basic> back;
    bool ok = true;
    try {
        back = parse_sbml(s);
    } catch (SymEngineException &) {
        ok = false;
    }
    verif_assert(ok, "the SBML rendering parses");
    if (ok)
        verif_assert(eq(*back, *e), "parse_sbml(sbml(e)) == e");
    VERIF_END();
}
