// C04 — canonical form is unique: results ignore operand order and grouping
#include "vsym.h"
#include <symengine/logic.h>
using namespace vs;

// pool of exact operands (shared numeric slots so that equal operands and cancelling terms occur)
static RCP<const Basic> operand(const std::string &tag, RCP<const Integer> c1, RCP<const Integer> c2)
{
    RCP<const Basic> x = symbol("x"), y = symbol("y");
    switch (verif_choice((tag + "_k").c_str(), verif_param("kinds", 11))) {
        case 0: return c1;
        case 1: return Rational::from_two_ints(*c2, *integer(2));
        case 2: return x;
        case 3: return mul(c1, x);
        case 4: return pow(x, c2);
        case 5: return pow(x, Rational::from_two_ints(*c1, *integer(2)));
        case 6: return mul(c2, pow(y, integer(2)));
        case 7: return sin(x);
        case 8: return Complex::from_two_nums(*c1, *c2);
        case 9: return mul(x, y);
        default: return pow(integer(2), Rational::from_two_ints(*c2, *integer(3)));
    }
}
extern "C" void harness_c04_add_mul()
{
    long B = verif_param("B", 3);
    RCP<const Integer> c1 = sym_integer("c1", -B, B), c2 = sym_integer("c2", -B, B);
    RCP<const Basic> a = operand("a", c1, c2), b = operand("b", c1, c2), c = operand("c", c1, c2);
    bool sum = verif_choice("sum", 2);
    auto op = [&](const RCP<const Basic> &l, const RCP<const Basic> &r) { return sum ? add(l, r) : mul(l, r); };
    RCP<const Basic> ref;
    try {
        ref = op(op(a, b), c);
    } catch (SymEngineException &) {
        verif_assume(false);
    }
    // all groupings and orders
    verif_assert(eq(*op(a, op(b, c)), *ref), "(a.b).c == a.(b.c)");
    verif_assert(eq(*op(op(b, a), c), *ref), "(b.a).c");
    verif_assert(eq(*op(c, op(a, b)), *ref), "c.(a.b)");
    verif_assert(eq(*op(op(c, b), a), *ref), "(c.b).a");
    verif_assert(eq(*op(b, op(c, a)), *ref), "b.(c.a)");
    verif_assert(eq(*op(op(a, c), b), *ref), "(a.c).b");
    // n-ary function
    vec_basic v1 = {a, b, c}, v2 = {c, a, b};
    verif_assert(eq(sum ? *add(v1) : *mul(v1), *ref), "n-ary add/mul equals the pairwise result");
    verif_assert(eq(sum ? *add(v2) : *mul(v2), *ref), "n-ary add/mul ignores the order of its arguments");
    // (equal hashes of equal results are C01's subject; C04 is about equality of the canonical forms)
    VERIF_END();
}
extern "C" void harness_c04_maxmin_logic()
{
    long B = verif_param("B", 3);
    RCP<const Integer> c1 = sym_integer("c1", -B, B), c2 = sym_integer("c2", -B, B);
    RCP<const Basic> x = symbol("x"), y = symbol("y");
    RCP<const Basic> a = verif_choice("ak", 2) ? (RCP<const Basic>)c1 : x, b = verif_choice("bk", 2) ? (RCP<const Basic>)c2 : y, c = verif_choice("ck", 2) ? (RCP<const Basic>)add(x, c1) : (RCP<const Basic>)c2;
    verif_assert(eq(*max({a, b, c}), *max({c, a, b})) && eq(*max({a, b, c}), *max({b, c, a})), "max ignores argument order");
    verif_assert(eq(*min({a, b, c}), *min({c, b, a})), "min ignores argument order");
    verif_assert(eq(*max({max({a, b}), c}), *max({a, max({b, c})})), "max ignores grouping");
    RCP<const Boolean> p = Lt(x, c1), q = Le(y, c2), r = Ne(x, c2);
    verif_assert(eq(*logical_and({p, q, r}), *logical_and({r, p, q})), "and ignores argument order");
    verif_assert(eq(*logical_or({p, q, r}), *logical_or({q, r, p})), "or ignores argument order");
    verif_assert(eq(*logical_and({logical_and({p, q}), r}), *logical_and({p, logical_and({q, r})})), "and ignores grouping");
    verif_assert(eq(*logical_or({logical_or({p, q}), r}), *logical_or({p, logical_or({q, r})})), "or ignores grouping");
    VERIF_END();
}
