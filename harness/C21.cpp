// C21 — univariate polynomial arithmetic agrees with schoolbook arithmetic on coefficient lists
#include "vsym.h"
#include <symengine/polys/uintpoly.h>
#include <symengine/polys/uratpoly.h>
#include <symengine/polys/uexprpoly.h>
#include <symengine/polys/basic_conversions.h>
using namespace vs;

typedef std::vector<integer_class> Vec;
static Vec sym_vec(const std::string &tag, unsigned n, long lo, long hi)
{
    Vec v;
    for (unsigned i = 0; i < n; i++)
        v.push_back(sym_integer(tag + std::to_string(i), lo, hi)->as_integer_class());
    return v;
}
// second operand: symbolic, or (param enum2, quick tier) one path per value so that products stay linear in the symbolic operand
static Vec second_vec(const std::string &tag, unsigned n, long lo, long hi)
{
    if (!verif_param("enum2", 0))
        return sym_vec(tag, n, lo, hi);
    Vec v;
    for (unsigned i = 0; i < n; i++)
        v.push_back(integer_class(lo + (long)verif_choice((tag + std::to_string(i)).c_str(), hi - lo + 1)));
    return v;
}
static Vec conv(const Vec &a, const Vec &b)
{
    Vec r(a.size() + b.size() - 1, integer_class(0));
    for (size_t i = 0; i < a.size(); i++)
        for (size_t j = 0; j < b.size(); j++)
            r[i + j] += a[i] * b[j];
    return r;
}
static void assert_coeffs(const UIntPoly &p, const Vec &e, const char *msg)
{
    for (size_t i = 0; i < e.size(); i++) {
        integer_class c = p.get_coeff((unsigned)i);
        verif_assert_mpz_eq(get_mpz_t(c), get_mpz_t(e[i]), msg);
    }
    integer_class beyond = p.get_coeff((unsigned)e.size());
    verif_assert(beyond == 0, "no coefficient beyond the expected degree");
    // degree = index of the last non-zero expected coefficient
    int deg = -1; // SymEngine reports degree 0 for the zero polynomial
    for (size_t i = 0; i < e.size(); i++)
        if (e[i] != 0)
            deg = (int)i;
    verif_assert(p.get_degree() == (deg < 0 ? 0 : deg), "degree is the index of the leading non-zero coefficient");
}
static void mul_body()
{
    RCP<const Symbol> x = symbol("x");
    unsigned nmin = (unsigned)verif_param("nmin", 1), nmax = (unsigned)verif_param("nmax", 3);
    unsigned na = nmin + (unsigned)verif_choice("na", nmax - nmin + 1), nb = nmin + (unsigned)verif_choice("nb", nmax - nmin + 1);
    long B = verif_param("B", 7);
    long lo = verif_param("lo", -1000000) != -1000000 ? verif_param("lo", 0) : (verif_param("nonneg", 0) ? 0 : -B);
    Vec a = sym_vec("a", na, lo, B), b = sym_vec("b", nb, lo, B);
    RCP<const UIntPoly> p = UIntPoly::from_vec(x, a), q = UIntPoly::from_vec(x, b);
    RCP<const UIntPoly> r = mul_upoly(*p, *q);
    assert_coeffs(*r, conv(a, b), "product coefficient equals the schoolbook convolution");
    VERIF_END();
}
extern "C" void harness_c21_mul() { mul_body(); }
// the digit-width boundary of the Kronecker substitution: three-term operands with coefficients near the largest value
extern "C" void harness_c21_mul_edge() { mul_body(); }
extern "C" void harness_c21_linear()
{
    RCP<const Symbol> x = symbol("x");
    long B = verif_param("B", 1000);
    Vec a = sym_vec("a", 3, -B, B), b = sym_vec("b", 3, -B, B);
    RCP<const UIntPoly> p = UIntPoly::from_vec(x, a), q = UIntPoly::from_vec(x, b);
    Vec s(3), d(3), n(3);
    for (int i = 0; i < 3; i++) {
        s[i] = a[i] + b[i];
        d[i] = a[i] - b[i];
        n[i] = -a[i];
    }
    assert_coeffs(*add_upoly(*p, *q), s, "sum coefficient");
    assert_coeffs(*sub_upoly(*p, *q), d, "difference coefficient");
    assert_coeffs(*neg_upoly(*p), n, "negation coefficient");
    // evaluation at a symbolic point (Horner vs direct)
    integer_class v = sym_integer("v", -20, 20)->as_integer_class();
    integer_class ev = p->eval(v), direct = a[0] + a[1] * v + a[2] * v * v;
    verif_assert_mpz_eq(get_mpz_t(ev), get_mpz_t(direct), "eval(v) equals the polynomial's value");
    // derivative
    RCP<const Basic> dp = p->diff(x);
    verif_assert(is_a<UIntPoly>(*dp), "derivative of a UIntPoly is a UIntPoly");
    Vec de = {a[1], a[2] * 2};
    assert_coeffs(down_cast<const UIntPoly &>(*dp), de, "derivative coefficient");
    verif_assert(eq(*p, *q) == (a[0] == b[0] && a[1] == b[1] && a[2] == b[2]), "polynomial equality is coefficient-wise");
    VERIF_END();
}
extern "C" void harness_c21_pow_div()
{
    RCP<const Symbol> x = symbol("x");
    long B = verif_param("B", 5);
    Vec a = sym_vec("a", 2, -B, B), b = second_vec("b", 2, -B, B);
    RCP<const UIntPoly> p = UIntPoly::from_vec(x, a), q = UIntPoly::from_vec(x, b);
    unsigned k = (unsigned)verif_choice("k", verif_param("kmax", 4));
    Vec e = {integer_class(1)};
    for (unsigned i = 0; i < k; i++)
        e = conv(e, a);
    assert_coeffs(*pow_upoly(*p, k), e, "power coefficient equals repeated convolution");
    // exact division test: q | p*q always (q != 0), and the quotient is p
    bool qzero = b[0] == 0 && b[1] == 0;
    if (!qzero) {
        RCP<const UIntPoly> pq = mul_upoly(*p, *q), quo;
        bool dv = divides_upoly(*q, *pq, outArg(quo));
        verif_assert(dv, "q divides p*q");
        if (dv)
            assert_coeffs(*quo, a, "(p*q)/q == p");
    }
    VERIF_END();
}
// higher powers (binary exponentiation with several set bits in the exponent)
extern "C" void harness_c21_pow_high()
{
    RCP<const Symbol> x = symbol("x");
    long B = verif_param("B", 1);
    // degree-7 polynomials in a symbolic coefficient through 36 chained digit extractions are beyond the solvers: here the
    // coefficients are one path per value (param enum2) and the exponent is what is being covered
    Vec a = second_vec("a", 2, -B, B);
    RCP<const UIntPoly> p = UIntPoly::from_vec(x, a);
    static const unsigned KS[] = {7, 6, 5, 11, 13};
    unsigned k = KS[verif_choice("k", verif_param("nk", 3))];
    Vec e = {integer_class(1)};
    for (unsigned i = 0; i < k; i++)
        e = conv(e, a);
    assert_coeffs(*pow_upoly(*p, k), e, "power coefficient equals repeated convolution");
    VERIF_END();
}
// exact division with a three-term divisor: d | d*m always, also when the product has fewer terms than d (cancellation)
extern "C" void harness_c21_divides()
{
    RCP<const Symbol> x = symbol("x");
    long B = verif_param("B", 2);
    Vec d = sym_vec("d", 2, -B, B), m = second_vec("m", 2, -B, B);
    d.push_back(second_vec("dlead", 1, -B, B)[0]); // leading coefficient (the divisor of every quotient step)
    verif_assume(d[2] != 0);
    RCP<const UIntPoly> dp = UIntPoly::from_vec(x, d), mp = UIntPoly::from_vec(x, m);
    RCP<const UIntPoly> prod = mul_upoly(*dp, *mp), quo;
    bool dv = divides_upoly(*dp, *prod, outArg(quo));
    verif_assert(dv, "d divides d*m");
    if (dv)
        assert_coeffs(*quo, m, "(d*m)/d == m");
    // and d does not divide d*m + 1 (the remainder 1 has lower degree than d)
    Vec pm = conv(d, m);
    pm[0] += 1;
    RCP<const UIntPoly> off = UIntPoly::from_vec(x, pm), q2;
    verif_assert(!divides_upoly(*dp, *off, outArg(q2)), "d does not divide d*m + 1");
    VERIF_END();
}
// conversion round trip: from_basic(as_symbolic(p)) == p and as_symbolic is the expanded expression
extern "C" void harness_c21_convert()
{
    RCP<const Symbol> x = symbol("x");
    long B = verif_param("B", 6);
    Vec a = sym_vec("a", 3, -B, B);
    RCP<const UIntPoly> p = UIntPoly::from_vec(x, a);
    RCP<const Basic> s = p->as_symbolic();
    RCP<const Basic> ex = add(add(integer(a[0]), mul(integer(a[1]), x)), mul(integer(a[2]), pow(x, integer(2))));
    verif_assert(eq(*s, *ex), "as_symbolic is c0 + c1 x + c2 x^2");
    RCP<const UIntPoly> back = from_basic<UIntPoly>(s, x);
    verif_assert(eq(*back, *p), "from_basic(as_symbolic(p)) == p");
    // (c0 + c1 x)*(d + x) given as an unexpanded expression converts to its expansion
    integer_class d = second_vec("d", 1, -B, B)[0];
    RCP<const Basic> prod = mul(add(integer(a[0]), mul(integer(a[1]), x)), add(integer(d), x));
    RCP<const UIntPoly> pp = from_basic<UIntPoly>(prod, x);
    Vec e = conv({a[0], a[1]}, {d, integer_class(1)});
    assert_coeffs(*pp, e, "from_basic of a product is the expansion");
    VERIF_END();
}
// rational coefficients
extern "C" void harness_c21_urat()
{
    RCP<const Symbol> x = symbol("x");
    long B = verif_param("B", 6);
    std::vector<rational_class> a, b;
    Vec an = sym_vec("an", 2, -B, B), bn = sym_vec("bn", 2, -B, B);
    long da = 1 + (long)verif_choice("da", 3), db = 1 + (long)verif_choice("db", 3);
    for (int i = 0; i < 2; i++) {
        a.push_back(rational_class(an[i], integer_class(da)));
        canonicalize(a.back());
        b.push_back(rational_class(bn[i], integer_class(db)));
        canonicalize(b.back());
    }
    RCP<const URatPoly> p = URatPoly::from_vec(x, a), q = URatPoly::from_vec(x, b);
    RCP<const URatPoly> r = mul_upoly(*p, *q);
    // expected numerators over the common denominator da*db
    Vec e = conv(an, bn);
    for (unsigned i = 0; i < 3; i++) {
        rational_class c = r->get_coeff(i);
        integer_class l = get_num(c) * integer_class(da * db), rr = e[i] * get_den(c);
        verif_assert_mpz_eq(get_mpz_t(l), get_mpz_t(rr), "URatPoly product coefficient is exact");
    }
    RCP<const URatPoly> s = add_upoly(*p, *q);
    for (unsigned i = 0; i < 2; i++) {
        rational_class c = s->get_coeff(i);
        integer_class l = get_num(c) * integer_class(da * db), rr = (an[i] * integer_class(db) + bn[i] * integer_class(da)) * get_den(c);
        verif_assert_mpz_eq(get_mpz_t(l), get_mpz_t(rr), "URatPoly sum coefficient is exact");
    }
    VERIF_END();
}
