// C37 — common-subexpression elimination is a faithful factoring
#include "vrecipe.h"
#include <symengine/visitor.h>
#include <symengine/subs.h>
using namespace vr;

extern "C" void harness_c37_cse()
{
    Gen g;
    g.leaves = {L_X, L_Y, L_NUM};
    if (verif_param("symnum", 1)) // symbolic integer leaves (their hashes are symbolic: the thorough tier only)
        g.leaves.push_back(L_SYMNUM);
    g.nums = {{2, 1}, {-1, 2}, {3, 1}};
    g.unary = {O_NEG, O_POWI, O_SIN, O_EXP, O_SQRT};
    g.binary = {O_ADD, O_SUB, O_MUL, O_DIV};
    g.ipows = {2, 3, -1};
    g.symB = verif_param("symB", 2);
    Recipe r1, r2;
    r1.root = g.gen(r1, (int)verif_param("depth", 2), "s"); // the shared subexpression
    r2.root = g.gen(r2, 1, "u");
    RCP<const Basic> sh, u;
    try {
        sh = build(r1, r1.root);
        u = build(r2, r2.root);
    } catch (SymEngineException &) {
        verif_assume(false);
    }
    RCP<const Basic> x = symbol("x"), y = symbol("y");
    // outputs sharing subtrees, sub-sums and sub-products
    vec_basic exprs;
    try {
        exprs = {add(sin(sh), mul(sh, u)), mul(add(sh, u), cos(sh)), pow(add(add(sh, u), x), integer(2)), add(add(sh, u), y)};
    } catch (SymEngineException &) {
        verif_assume(false);
    }
    vec_pair repl;
    vec_basic reduced;
    cse(repl, reduced, exprs);
    verif_assert(reduced.size() == exprs.size(), "cse returns one reduced expression per input");
    // replacement symbols are fresh and refer only to earlier ones
    set_basic in_syms;
    for (auto &e : exprs) {
        set_basic s = free_symbols(*e);
        in_syms.insert(s.begin(), s.end());
    }
    set_basic defined;
    for (auto &pr : repl) {
        verif_assert(is_a<Symbol>(*pr.first) && in_syms.count(pr.first) == 0 && defined.count(pr.first) == 0, "replacement symbols are fresh");
        set_basic s = free_symbols(*pr.second);
        for (auto &t : s)
            verif_assert(in_syms.count(t) == 1 || defined.count(t) == 1, "a replacement refers only to input symbols and earlier replacements");
        defined.insert(pr.first);
    }
    // back-substitution, last to first, reproduces the inputs
    for (size_t i = 0; i < exprs.size(); i++) {
        RCP<const Basic> e = reduced[i];
        for (size_t k = repl.size(); k-- > 0;) {
            map_basic_basic m;
            m[repl[k].first] = repl[k].second;
            e = xreplace(e, m);
        }
        verif_assert(eq(*e, *exprs[i]), "substituting the replacements back reproduces the input");
    }
    VERIF_END();
}
