// C17 — the parser implements conventional mathematical syntax
#include "vsym.h"
#include <symengine/parser.h>
using namespace vs;

// decimal integer literals: digits d1..dk (symbolic values, leading zeros allowed) denote sum d_i 10^(k-i)
extern "C" void harness_c17_integers()
{
    unsigned k = 1 + (unsigned)verif_choice("ndigits", verif_param("maxdigits", 4));
    std::string s;
    long v = 0;
    for (unsigned i = 0; i < k; i++) {
        long d = verif_concretize(verif_i64(("d" + std::to_string(i)).c_str(), 0, 9));
        s.push_back((char)('0' + d));
        v = v * 10 + d;
    }
    RCP<const Basic> r = parse(s);
    verif_assert(is_a<Integer>(*r), "a string of decimal digits parses to an Integer");
    verif_assert(eq(*r, *integer(v)), "decimal integer literals are read in base 10 regardless of leading zeros");
    // with a sign and inside an expression
    RCP<const Basic> r2 = parse("-" + s + "+x");
    verif_assert(eq(*r2, *add(integer(-v), symbol("x"))), "signed literal inside a sum");
    VERIF_END();
}
// decimal / exponent literals are floats with the exactly rounded value
extern "C" void harness_c17_floats()
{
    long ip = verif_concretize(verif_i64("ip", 0, 99)), fp = verif_concretize(verif_i64("fp", 0, 99)), ex = verif_concretize(verif_i64("ex", -9, 9));
    int form = (int)verif_choice("form", 3);
    char buf[64];
    if (form == 0)
        snprintf(buf, sizeof buf, "%ld.%02ld", ip, fp);
    else if (form == 1)
        snprintf(buf, sizeof buf, "%ld.%02lde%ld", ip, fp, ex);
    else
        snprintf(buf, sizeof buf, "%lde%ld", ip, ex);
    RCP<const Basic> r = parse(buf);
    verif_assert(is_a<RealDouble>(*r), "a decimal or exponent literal parses to a float");
    double expect = strtod(buf, nullptr);
    if (is_a<RealDouble>(*r))
        verif_assert(down_cast<const RealDouble &>(*r).i == expect, "float literal has the correctly rounded value");
    VERIF_END();
}
// precedence, associativity, unary signs, implicit multiplication, whitespace and redundant parentheses: strings generated from an
// abstract syntax tree are compared with the expression built directly from the same tree
struct Ast {
    std::string text;
    RCP<const Basic> val;
    int prec; // 0 atom, 1 power, 2 unary minus, 3 product, 4 sum
};
static Ast atom(const std::string &tag)
{
    unsigned k = (unsigned)verif_choice((tag + "_atom").c_str(), 5);
    switch (k) {
        case 0: return {"x", symbol("x"), 0};
        case 1: return {"y", symbol("y"), 0};
        case 2: {
            long v = 2; // (2**2**2 stays small)
            return {std::to_string(v), integer(v), 0};
        }
        case 3: return {"3x", mul(integer(3), symbol("x")), 3}; // implicit multiplication of a number and an identifier
        default: return {"sin(y)", sin(symbol("y")), 0};
    }
}
static std::string ws(const std::string &tag)
{
    // one whitespace style per string: none, single blanks, or blanks and tabs
    static const char *w[] = {"", " ", " \t "};
    return w[verif_choice("ws_style", 3)];
}
static Ast paren(const Ast &a, int need)
{
    // parenthesise when the context binds tighter than the operand (or redundantly, by choice)
    if (a.prec > need)
        return {"(" + a.text + ")", a.val, 0};
    return a;
}
extern "C" void harness_c17_syntax()
{
    Ast a = atom("a"), b = atom("b"), c = atom("c");
    unsigned op1 = (unsigned)verif_choice("op1", 5), op2 = (unsigned)verif_choice("op2", 5);
    static const char *ops[] = {"+", "-", "*", "/", "**"};
    static const int precs[] = {4, 4, 3, 3, 1};
    auto apply = [](unsigned op, const RCP<const Basic> &l, const RCP<const Basic> &r) -> RCP<const Basic> {
        switch (op) {
            case 0: return add(l, r);
            case 1: return sub(l, r);
            case 2: return mul(l, r);
            case 3: return div(l, r);
            default: return pow(l, r);
        }
    };
    // a op1 b op2 c without parentheses: conventional grouping by precedence; +,-,*,/ left-associative, ** right-associative
    std::string s = ws("w0") + paren(a, precs[op1] - (op1 == 4 ? 1 : 0)).text + ws("w1") + ops[op1] + ws("w2") + paren(b, std::min(precs[op1], precs[op2]) - 1).text + ws("w3") + ops[op2]
                    + ws("w4") + paren(c, precs[op2] - (op2 == 4 ? 0 : 1)).text;
    RCP<const Basic> expect;
    bool right_first = precs[op2] < precs[op1] || (op1 == 4 && op2 == 4);
    if (right_first)
        expect = apply(op1, a.val, apply(op2, b.val, c.val));
    else
        expect = apply(op2, apply(op1, a.val, b.val), c.val);
    bool divzero = false;
    RCP<const Basic> r;
    try {
        r = parse(s);
    } catch (SymEngineException &) {
        divzero = true;
    }
    if (!divzero)
        verif_assert(eq(*r, *expect), "a op b op c is grouped by the usual precedence and associativity");
    // unary minus binds weaker than ** and tighter than binary operators:  -a**b == -(a**b),  a*-b == a*(-b)
    RCP<const Basic> u1 = parse("-" + paren(a, 0).text + "**" + paren(b, 0).text);
    verif_assert(eq(*u1, *neg(pow(a.val, b.val))), "-a**b is -(a**b)");
    RCP<const Basic> u2 = parse(paren(a, 0).text + "*-" + paren(b, 0).text);
    verif_assert(eq(*u2, *mul(a.val, neg(b.val))), "a*-b is a*(-b)");
    RCP<const Basic> u3 = parse(paren(a, 0).text + "^" + paren(b, 0).text);
    verif_assert(eq(*u3, *pow(a.val, b.val)), "^ is exponentiation");
    VERIF_END();
}
// function names map to the corresponding library functions
extern "C" void harness_c17_functions()
{
    RCP<const Basic> x = symbol("x"), y = symbol("y");
    struct F { const char *name; RCP<const Basic> (*fn)(const RCP<const Basic> &); };
    static const F fs[] = {{"sin", sin}, {"cos", cos}, {"tan", tan}, {"cot", cot}, {"sec", sec}, {"csc", csc}, {"asin", asin}, {"acos", acos}, {"atan", atan},
                           {"sinh", sinh}, {"cosh", cosh}, {"tanh", tanh}, {"asinh", asinh}, {"acosh", acosh}, {"atanh", atanh}, {"exp", exp}, {"log", log},
                           {"sqrt", sqrt}, {"gamma", gamma}, {"erf", erf}, {"erfc", erfc}, {"abs", abs}, {"floor", floor}, {"ceiling", ceiling}, {"sign", sign}};
    unsigned i = (unsigned)verif_choice("f", sizeof(fs) / sizeof(fs[0]));
    RCP<const Basic> r = parse(std::string(fs[i].name) + "(x + 2*y)");
    verif_assert(eq(*r, *fs[i].fn(add(x, mul(integer(2), y)))), "function names denote the library functions");
    verif_assert(eq(*parse("atan2(x, y)"), *atan2(x, y)) && eq(*parse("max(x, y, 3)"), *max({x, y, integer(3)})) && eq(*parse("pi"), *pi) && eq(*parse("E"), *E) && eq(*parse("I"), *I),
                 "two-argument functions and constants");
    VERIF_END();
}
