// C42 — the C API and the Expression wrapper agree with the core API; no C++ exception reaches the C caller
#include "vsym.h"
#include <symengine/cwrapper.h>
#include <symengine/expression.h>
#include <symengine/ntheory.h>
#include <symengine/parser.h>
#include <symengine/lambda_double.h>
#include <symengine/sets.h>
#include <set>
using namespace vs;

// run one C call: a C++ exception arriving here has escaped an extern "C" function
#define CCALL(stmt)                                                                                                    \
    try {                                                                                                              \
        stmt;                                                                                                          \
    } catch (...) {                                                                                                    \
        verif_assert(false, "a C++ exception escaped from a C API function: " #stmt);                                  \
    }
struct CB { // RAII holder for a `basic`
    basic b;
    CB() { basic_new_stack(b); }
    ~CB() { basic_free_stack(b); }
    const RCP<const Basic> &rcp() const { return reinterpret_cast<const RCP<const Basic> *>(b)[0]; }
};
// operand through the C constructors: 0 integer (symbolic long), 1 rational i/j with symbolic i, j (j may be 0: zoo / nan like
// Rational::from_two_ints), 2 symbol, 3 1.5
static long slot(const std::string &name, long lo, long hi, bool enumerate)
{
    // symbolic, or one path per value (for functions whose evaluation looks the argument up in hash tables)
    return enumerate ? lo + (long)verif_choice(name.c_str(), hi - lo + 1) : verif_i64(name.c_str(), lo, hi);
}
static bool c_operand(CB &o, int kind, const std::string &tag, RCP<const Basic> &cpp, bool enumerate = false)
{
    CWRAPPER_OUTPUT_TYPE rc = SYMENGINE_NO_EXCEPTION;
    switch (kind) {
        case 0: {
            long R = verif_param("R", 4);
            long v = slot(tag + "_i", enumerate ? -2 : -R, enumerate ? 2 : R, enumerate);
            CCALL(rc = integer_set_si(o.b, v));
            cpp = integer(v);
            break;
        }
        case 1: {
            long R = verif_param("R", 4);
            long i = slot(tag + "_n", enumerate ? -1 : -R, enumerate ? 2 : R, enumerate), j = slot(tag + "_d", enumerate ? 0 : -2, enumerate ? 2 : 3, enumerate);
            CCALL(rc = rational_set_si(o.b, i, j));
            cpp = Rational::from_two_ints(i, j);
            break;
        }
        case 2:
            CCALL(rc = symbol_set(o.b, tag.c_str()));
            cpp = symbol(tag);
            break;
        default:
            CCALL(rc = real_double_set_d(o.b, 1.5));
            cpp = real_double(1.5);
            break;
    }
    verif_assert(rc == SYMENGINE_NO_EXCEPTION, "C constructor succeeds on valid input");
    verif_assert(eq(*o.rcp(), *cpp), "C constructor builds the same object as the C++ constructor");
    return true;
}
// rc/result of a C call against the C++ call: equal results, or an error code exactly when C++ throws
template <class F>
static void agree(CWRAPPER_OUTPUT_TYPE rc, const CB &res, F cppcall, const char *what)
{
    RCP<const Basic> e;
    bool threw = false;
    int code = 0;
    try {
        e = cppcall();
    } catch (SymEngineException &ex) {
        threw = true;
        code = ex.error_code();
    } catch (std::exception &) {
        threw = true;
        code = SYMENGINE_RUNTIME_ERROR;
    }
    if (threw) {
        verif_assert(rc != SYMENGINE_NO_EXCEPTION, what);
        verif_assert((int)rc == code, "the error code is the exception's code");
    } else {
        verif_assert(rc == SYMENGINE_NO_EXCEPTION, what);
        verif_assert(rc != SYMENGINE_NO_EXCEPTION || eq(*res.rcp(), *e), what);
    }
}
extern "C" void harness_c42_binary()
{
    CB a, b, r;
    RCP<const Basic> ca, cb;
    unsigned op = (unsigned)verif_choice("op", 8);
    int ka = (int)verif_choice("ka", 4), kb = (int)verif_choice("kb", 4);
    // atan2 / beta: table lookups keyed by the argument's hash; a floating operand: symbolic int -> double conversions inside pow
    // and inside hashes.  There the exact operands are enumerated (one path per value) instead of symbolic.
    bool en = op == 5 || op == 6 || ka == 3 || kb == 3;
    if (!c_operand(a, ka, "a", ca, en) || !c_operand(b, kb, "b", cb, en)) {
        VERIF_END();
        return;
    }
    CWRAPPER_OUTPUT_TYPE rc = SYMENGINE_NO_EXCEPTION;
    switch (op) {
        case 0: CCALL(rc = basic_add(r.b, a.b, b.b)); agree(rc, r, [&] { return add(ca, cb); }, "basic_add agrees with add()"); break;
        case 1: CCALL(rc = basic_sub(r.b, a.b, b.b)); agree(rc, r, [&] { return sub(ca, cb); }, "basic_sub agrees with sub()"); break;
        case 2: CCALL(rc = basic_mul(r.b, a.b, b.b)); agree(rc, r, [&] { return mul(ca, cb); }, "basic_mul agrees with mul()"); break;
        case 3: CCALL(rc = basic_div(r.b, a.b, b.b)); agree(rc, r, [&] { return div(ca, cb); }, "basic_div agrees with div()"); break;
        case 4: CCALL(rc = basic_pow(r.b, a.b, b.b)); agree(rc, r, [&] { return pow(ca, cb); }, "basic_pow agrees with pow()"); break;
        case 5: CCALL(rc = basic_atan2(r.b, a.b, b.b)); agree(rc, r, [&] { return atan2(ca, cb); }, "basic_atan2 agrees with atan2()"); break;
        case 6: CCALL(rc = basic_beta(r.b, a.b, b.b)); agree(rc, r, [&] { return beta(ca, cb); }, "basic_beta agrees with beta()"); break;
        default: CCALL(rc = basic_diff(r.b, a.b, b.b)); agree(rc, r, [&] { if (!is_a<Symbol>(*cb)) throw SymEngineException("diff wrt non-symbol"); return ca->diff(rcp_static_cast<const Symbol>(cb)); }, "basic_diff agrees with diff()"); break;
    }
    // expression wrapper
    Expression ea(ca), eb(cb);
    verif_assert(eq(*(ea + eb).get_basic(), *add(ca, cb)), "Expression + is add()");
    verif_assert(eq(*(ea - eb).get_basic(), *sub(ca, cb)), "Expression - is sub()");
    verif_assert(eq(*(ea * eb).get_basic(), *mul(ca, cb)), "Expression * is mul()");
    verif_assert(eq(*(ea / eb).get_basic(), *div(ca, cb)), "Expression / is div()");
    verif_assert(eq(*(-ea).get_basic(), *neg(ca)), "unary Expression - is neg()");
    verif_assert((ea == eb) == eq(*ca, *cb), "Expression == is eq()");
    Expression acc = ea;
    acc += eb;
    acc *= eb;
    verif_assert(eq(*acc.get_basic(), *mul(add(ca, cb), cb)), "compound assignment operators");
    VERIF_END();
}
typedef CWRAPPER_OUTPUT_TYPE (*CUn)(basic, const basic);
typedef RCP<const Basic> (*PUn)(const RCP<const Basic> &);
extern "C" void harness_c42_unary()
{
    static const struct {
        CUn c;
        PUn p;
    } T[] = {{basic_sin, sin}, {basic_cos, cos}, {basic_tan, tan}, {basic_cot, cot}, {basic_csc, csc}, {basic_sec, sec}, {basic_asin, asin}, {basic_acos, acos},
             {basic_atan, atan}, {basic_sinh, sinh}, {basic_cosh, cosh}, {basic_tanh, tanh}, {basic_acosh, acosh}, {basic_atanh, atanh}, {basic_acoth, acoth},
             {basic_gamma, gamma}, {basic_loggamma, loggamma}, {basic_zeta, zeta}, {basic_dirichlet_eta, dirichlet_eta}, {basic_lambertw, lambertw},
             {basic_exp, exp}, {basic_log, log}, {basic_floor, floor}, {basic_ceiling, ceiling}, {basic_sign, sign}, {basic_abs, abs}, {basic_erf, erf}, {basic_neg, neg},
             {basic_expand, [](const RCP<const Basic> &x) { return expand(x); }}, {basic_sqrt, sqrt}, {basic_cbrt, cbrt}};
    CB a, r;
    RCP<const Basic> ca;
    unsigned k = (unsigned)verif_choice("fn", sizeof T / sizeof T[0]);
    bool heavy = k >= 15 && k <= 19; // gamma, loggamma, zeta, dirichlet_eta, lambertw: factorial / Bernoulli loops over the argument
    if (!c_operand(a, (int)verif_choice("ka", 4), "a", ca, heavy)) {
        VERIF_END();
        return;
    }
    CWRAPPER_OUTPUT_TYPE rc = SYMENGINE_NO_EXCEPTION;
    CCALL(rc = T[k].c(r.b, a.b));
    agree(rc, r, [&] { return T[k].p(ca); }, "unary C function agrees with the C++ function (or both fail)");
    if (is_a_Number(a.b)) {
        const Number &n = down_cast<const Number &>(*ca);
        verif_assert((number_is_zero(a.b) != 0) == n.is_zero() && (number_is_negative(a.b) != 0) == n.is_negative() && (number_is_positive(a.b) != 0) == n.is_positive(), "number predicates");
    }
    verif_assert((int)basic_get_type(a.b) == (int)ca->get_type_code(), "basic_get_type is the type code");
    verif_assert(basic_hash(a.b) == ca->hash(), "basic_hash is hash()");
    char *s = nullptr;
    if (rc == SYMENGINE_NO_EXCEPTION) { // (after an error code the output handle is untouched, possibly still empty)
        CCALL(s = basic_str(r.b));
        verif_assert(s && std::string(s) == r.rcp()->__str__(), "basic_str is __str__()");
    }
    if (s)
        basic_str_free(s);
    VERIF_END();
}
// strings: parse errors and integer_set_str give error codes
extern "C" void harness_c42_strings()
{
    static const char *const S[] = {"x + 1", "x +", "2**3", "(x", "sin(x)*", "1/0", "", "3 x", "f(x, y)", "x**", "12", "-7", "1e", "0x10", "1.5"};
    unsigned k = (unsigned)verif_choice("s", sizeof S / sizeof S[0]);
    CB r;
    CWRAPPER_OUTPUT_TYPE rc = SYMENGINE_NO_EXCEPTION;
    CCALL(rc = basic_parse(r.b, S[k]));
    agree(rc, r, [&] { return parse(S[k]); }, "basic_parse agrees with parse() (or both fail)");
    CB i;
    CCALL(rc = integer_set_str(i.b, S[k]));
    agree(rc, i, [&]() -> RCP<const Basic> { return integer(integer_class(S[k])); }, "integer_set_str agrees with integer(string) (or both fail)");
    VERIF_END();
}
// containers behave as vector / set / map
extern "C" void harness_c42_containers()
{
    RCP<const Basic> pool[4] = {symbol("x"), symbol("y"), integer(1), sym_integer("v", 0, 2)};
    CVecBasic *v = vecbasic_new();
    CSetBasic *st = setbasic_new();
    CMapBasicBasic *mp = mapbasicbasic_new();
    std::vector<RCP<const Basic>> mv;
    set_basic ms;
    map_basic_basic mm;
    int steps = (int)verif_param("steps", 3);
    for (int s = 0; s < steps; s++) {
        std::string t = "c" + std::to_string(s);
        CB e, o;
        RCP<const Basic> pe = pool[verif_choice((t + "e").c_str(), 4)];
        reinterpret_cast<RCP<const Basic> *>(e.b)[0] = pe;
        CWRAPPER_OUTPUT_TYPE rc = SYMENGINE_NO_EXCEPTION;
        switch (verif_choice((t + "op").c_str(), 7)) {
            case 0:
                CCALL(rc = vecbasic_push_back(v, e.b));
                mv.push_back(pe);
                break;
            case 1:
                if (!mv.empty()) {
                    size_t n = (size_t)verif_i64((t + "n").c_str(), 0, (long)mv.size() - 1);
                    CCALL(rc = vecbasic_get(v, n, o.b));
                    verif_assert(eq(*o.rcp(), *mv[n]), "vecbasic_get returns the n-th element");
                    CCALL(rc = vecbasic_set(v, n, e.b));
                    mv[n] = pe;
                }
                break;
            case 2:
                if (!mv.empty()) {
                    size_t n = (size_t)verif_i64((t + "n").c_str(), 0, (long)mv.size() - 1);
                    CCALL(rc = vecbasic_erase(v, n));
                    mv.erase(mv.begin() + n);
                }
                break;
            case 3: {
                int ins = 0;
                CCALL(ins = setbasic_insert(st, e.b));
                verif_assert((ins != 0) == ms.insert(pe).second, "setbasic_insert reports whether the element is new");
                break;
            }
            case 4: {
                int er = 0;
                CCALL(er = setbasic_erase(st, e.b));
                verif_assert((er != 0) == (ms.erase(pe) != 0), "setbasic_erase reports whether the element was present");
                break;
            }
            case 5: {
                CB val;
                reinterpret_cast<RCP<const Basic> *>(val.b)[0] = integer(s);
                CCALL(mapbasicbasic_insert(mp, e.b, val.b));
                mm.insert({pe, integer(s)}); // std::map::insert keeps an existing mapping
                break;
            }
            default: {
                int found = 0;
                CCALL(found = mapbasicbasic_get(mp, e.b, o.b));
                auto it = mm.find(pe);
                verif_assert((found != 0) == (it != mm.end()), "mapbasicbasic_get finds exactly the inserted keys");
                if (found && it != mm.end())
                    verif_assert(eq(*o.rcp(), *it->second), "mapbasicbasic_get returns the mapped value");
                break;
            }
        }
        verif_assert(rc == SYMENGINE_NO_EXCEPTION, "container operation succeeds");
        verif_assert(vecbasic_size(v) == mv.size() && setbasic_size(st) == ms.size() && mapbasicbasic_size(mp) == mm.size(), "container sizes follow the vector / set / map model");
        CB f;
        reinterpret_cast<RCP<const Basic> *>(f.b)[0] = pe;
        verif_assert((setbasic_find(st, f.b) != 0) == (ms.count(pe) != 0), "setbasic_find is set membership");
    }
    // set iteration order is the C++ set's order
    size_t i = 0;
    for (const auto &el : ms) {
        CB o;
        setbasic_get(st, (int)i++, o.b);
        verif_assert(eq(*o.rcp(), *el), "setbasic_get(n) is the n-th element in set order");
    }
    vecbasic_free(v);
    setbasic_free(st);
    mapbasicbasic_free(mp);
    VERIF_END();
}
// sets through the C API
static RCP<const Set> c_set(CB &o, const std::string &tag, bool enumerate = false)
{
    CWRAPPER_OUTPUT_TYPE rc = SYMENGINE_NO_EXCEPTION;
    RCP<const Set> cpp;
    switch (verif_choice((tag + "_k").c_str(), 8)) {
        case 0: {
            long a = slot(tag + "_a", -1, 1, enumerate), b = slot(tag + "_b", -1, 1, enumerate);
            int lo = (int)verif_choice((tag + "_lo").c_str(), 2), ro = (int)verif_choice((tag + "_ro").c_str(), 2);
            CB ca, cb;
            integer_set_si(ca.b, a);
            integer_set_si(cb.b, b);
            CCALL(rc = basic_set_interval(o.b, ca.b, cb.b, lo, ro));
            bool threw = false;
            try {
                cpp = interval(integer(a), integer(b), lo, ro);
            } catch (SymEngineException &) {
                threw = true;
            }
            verif_assert((rc != SYMENGINE_NO_EXCEPTION) == threw, "basic_set_interval reports an error code exactly when interval() throws");
            if (threw)
                return RCP<const Set>();
            break;
        }
        case 1: {
            CSetBasic *c = setbasic_new();
            CB e1, e2;
            long a = slot(tag + "_e", -1, 1, enumerate);
            integer_set_si(e1.b, a);
            symbol_set(e2.b, "t");
            setbasic_insert(c, e1.b);
            bool withSym = enumerate && verif_choice((tag + "_sym").c_str(), 2); // (a symbol as element only next to concrete numbers)
            if (withSym)
                setbasic_insert(c, e2.b);
            CCALL(rc = basic_set_finiteset(o.b, c));
            setbasic_free(c);
            cpp = withSym ? finiteset({integer(a), symbol("t")}) : finiteset({integer(a)});
            break;
        }
        case 2: CCALL(basic_set_emptyset(o.b)); cpp = emptyset(); break;
        case 3: CCALL(basic_set_universalset(o.b)); cpp = universalset(); break;
        case 4: CCALL(basic_set_reals(o.b)); cpp = reals(); break;
        case 5: CCALL(basic_set_rationals(o.b)); cpp = rationals(); break;
        case 6: CCALL(basic_set_integers(o.b)); cpp = integers(); break;
        default: CCALL(basic_set_complexes(o.b)); cpp = complexes(); break;
    }
    verif_assert(rc == SYMENGINE_NO_EXCEPTION, "C set constructor succeeds");
    verif_assert(eq(*o.rcp(), *cpp), "C set constructor builds the same set as the C++ constructor");
    return cpp;
}
extern "C" void harness_c42_sets()
{
    CB a, b, r, pt;
    RCP<const Set> sa = c_set(a, "a");
    if (sa.is_null()) {
        VERIF_END();
        return;
    }
    long pv = verif_i64("p", -2, 2);
    integer_set_si(pt.b, pv);
    RCP<const Basic> p = integer(pv);
    CWRAPPER_OUTPUT_TYPE rc = SYMENGINE_NO_EXCEPTION;
    unsigned op = (unsigned)verif_choice("op", 9);
    if (op < 4) {
        RCP<const Set> sb = c_set(b, "b", true); // second operand: one path per value
        if (sb.is_null()) {
            VERIF_END();
            return;
        }
        switch (op) {
            case 0: CCALL(rc = basic_set_union(r.b, a.b, b.b)); agree(rc, r, [&]() -> RCP<const Basic> { return sa->set_union(sb); }, "basic_set_union"); break;
            case 1: CCALL(rc = basic_set_intersection(r.b, a.b, b.b)); agree(rc, r, [&]() -> RCP<const Basic> { return sa->set_intersection(sb); }, "basic_set_intersection"); break;
            case 2: CCALL(rc = basic_set_complement(r.b, a.b, b.b)); agree(rc, r, [&]() -> RCP<const Basic> { return sa->set_complement(sb); }, "basic_set_complement"); break;
            default: {
                int s1 = 0, s2 = 0;
                bool t1 = false, t2 = false, cs1 = false, cs2 = false;
                try {
                    cs1 = sa->is_subset(sb);
                    cs2 = sa->is_superset(sb);
                } catch (SymEngineException &) {
                    t1 = true;
                }
                if (!t1) {
                    CCALL(s1 = basic_set_is_subset(a.b, b.b));
                    CCALL(s2 = basic_set_is_superset(a.b, b.b));
                    verif_assert((s1 != 0) == cs1 && (s2 != 0) == cs2, "basic_set_is_subset / is_superset");
                }
                (void)t2;
                break;
            }
        }
    } else {
        switch (op) {
            case 4: CCALL(rc = basic_set_contains(r.b, a.b, pt.b)); agree(rc, r, [&]() -> RCP<const Basic> { return sa->contains(p); }, "basic_set_contains"); break;
            case 5: CCALL(rc = basic_set_sup(r.b, a.b)); agree(rc, r, [&] { return sup(*sa); }, "basic_set_sup"); break;
            case 6: CCALL(rc = basic_set_inf(r.b, a.b)); agree(rc, r, [&] { return inf(*sa); }, "basic_set_inf"); break;
            case 7: CCALL(rc = basic_set_closure(r.b, a.b)); agree(rc, r, [&]() -> RCP<const Basic> { return closure(*sa); }, "basic_set_closure"); break;
            default: CCALL(rc = basic_set_interior(r.b, a.b)); agree(rc, r, [&]() -> RCP<const Basic> { return interior(*sa); }, "basic_set_interior"); break;
        }
    }
    VERIF_END();
}
// number theory and the lambda evaluator through C
extern "C" void harness_c42_ntheory()
{
    long av = verif_i64("a", -6, 6), bv = verif_i64("b", -4, 4);
    CB a, b, r, q;
    integer_set_si(a.b, av);
    integer_set_si(b.b, bv);
    RCP<const Integer> ca = integer(av), cb = integer(bv);
    CWRAPPER_OUTPUT_TYPE rc = SYMENGINE_NO_EXCEPTION;
    switch (verif_choice("op", 9)) {
        case 0: CCALL(rc = ntheory_gcd(r.b, a.b, b.b)); agree(rc, r, [&] { return gcd(*ca, *cb); }, "ntheory_gcd"); break;
        case 1: CCALL(rc = ntheory_lcm(r.b, a.b, b.b)); agree(rc, r, [&] { return lcm(*ca, *cb); }, "ntheory_lcm"); break;
        case 2: CCALL(rc = ntheory_mod(r.b, a.b, b.b)); agree(rc, r, [&] { if (bv == 0) throw DivisionByZeroError("mod 0"); return mod(*ca, *cb); }, "ntheory_mod (error code for a zero divisor)"); break;
        case 3: CCALL(rc = ntheory_quotient(r.b, a.b, b.b)); agree(rc, r, [&] { if (bv == 0) throw DivisionByZeroError("quotient 0"); return quotient(*ca, *cb); }, "ntheory_quotient (error code for a zero divisor)"); break;
        case 4: CCALL(rc = ntheory_mod_f(r.b, a.b, b.b)); agree(rc, r, [&] { if (bv == 0) throw DivisionByZeroError("mod_f 0"); return mod_f(*ca, *cb); }, "ntheory_mod_f (error code for a zero divisor)"); break;
        case 5: CCALL(rc = ntheory_quotient_f(r.b, a.b, b.b)); agree(rc, r, [&] { if (bv == 0) throw DivisionByZeroError("quotient_f 0"); return quotient_f(*ca, *cb); }, "ntheory_quotient_f (error code for a zero divisor)"); break;
        case 6: CCALL(rc = ntheory_binomial(r.b, a.b, (unsigned long)(bv < 0 ? -bv : bv))); agree(rc, r, [&] { return binomial(*ca, (unsigned long)(bv < 0 ? -bv : bv)); }, "ntheory_binomial"); break;
        case 7: CCALL(rc = ntheory_nextprime(r.b, a.b)); agree(rc, r, [&] { return nextprime(*ca); }, "ntheory_nextprime"); break;
        default: {
            CCALL(rc = ntheory_fibonacci(r.b, (unsigned long)(av < 0 ? -av : av)));
            agree(rc, r, [&] { return fibonacci((unsigned long)(av < 0 ? -av : av)); }, "ntheory_fibonacci");
            CCALL(rc = ntheory_factorial(q.b, (unsigned long)(av < 0 ? -av : av)));
            agree(rc, q, [&] { return factorial((unsigned long)(av < 0 ? -av : av)); }, "ntheory_factorial");
        }
    }
    VERIF_END();
}
// the lambda evaluator through C: an expression the real evaluator refuses must not throw through the C boundary
extern "C" void harness_c42_lambda()
{
    RCP<const Basic> x = symbol("x");
    RCP<const Basic> exprs[] = {add(x, integer(1)), sin(x), log(integer(-2)), mul(I, x), function_symbol("f", x), pow(x, Rational::from_two_ints(1, 2))};
    CVecBasic *args = vecbasic_new(), *outs = vecbasic_new();
    CB bx, be;
    reinterpret_cast<RCP<const Basic> *>(bx.b)[0] = x;
    reinterpret_cast<RCP<const Basic> *>(be.b)[0] = exprs[verif_choice("e", 6)];
    vecbasic_push_back(args, bx.b);
    vecbasic_push_back(outs, be.b);
    CLambdaRealDoubleVisitor *v = lambda_real_double_visitor_new();
    CWRAPPER_OUTPUT_TYPE rc = SYMENGINE_NO_EXCEPTION;
    CCALL(rc = lambda_real_double_visitor_init(v, args, outs, (int)verif_choice("cse", 2)));
    bool cppThrows = false;
    try {
        LambdaRealDoubleVisitor lv;
        lv.init({x}, {reinterpret_cast<RCP<const Basic> *>(be.b)[0]}, false);
    } catch (SymEngineException &) {
        cppThrows = true;
    }
    verif_assert((rc != SYMENGINE_NO_EXCEPTION) == cppThrows, "the C init reports an error code exactly when the C++ init throws");
    lambda_real_double_visitor_free(v);
    vecbasic_free(args);
    vecbasic_free(outs);
    VERIF_END();
}
