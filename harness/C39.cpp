// C39 — structural queries are accurate
#include "vrecipe.h"
#include <symengine/visitor.h>
#include <symengine/derivative.h>
using namespace vr;

// independent walker: symbols occurring in the recipe
static void recipe_symbols(const Recipe &r, int i, bool &hx, bool &hy, bool &hp)
{
    const Node &nd = r.n[i];
    if (nd.op == L_X)
        hx = true;
    if (nd.op == L_Y)
        hy = true;
    if (nd.op == L_P)
        hp = true;
    if (nd.a >= 0)
        recipe_symbols(r, nd.a, hx, hy, hp);
    if (nd.b >= 0)
        recipe_symbols(r, nd.b, hx, hy, hp);
}
// independent walker over the RESULT tree (get_args): symbols that occur
static void tree_symbols(const Basic &b, bool &hx, bool &hy, bool &hp)
{
    if (is_a<Symbol>(b)) {
        const std::string &n = down_cast<const Symbol &>(b).get_name();
        hx = hx || n == "x";
        hy = hy || n == "y";
        hp = hp || n == "p";
    }
    for (auto &a : b.get_args())
        tree_symbols(*a, hx, hy, hp);
}
extern "C" void harness_c39_symbols()
{
    Gen g;
    g.leaves = {L_X, L_Y, L_P, L_NUM, L_SYMNUM};
    g.nums = {{2, 1}, {-1, 2}, {0, 1}, {1, 1}};
    g.unary = {O_NEG, O_POWI, O_SIN, O_EXP, O_LOG};
    g.binary = {O_ADD, O_SUB, O_MUL, O_DIV};
    g.ipows = {2, -1, 0};
    g.symB = verif_param("symB", 2);
    Recipe r;
    r.root = g.gen(r, (int)verif_param("depth", 2), "t");
    RCP<const Basic> e;
    try {
        e = build(r, r.root);
    } catch (SymEngineException &) {
        verif_assume(false);
    }
    // a numeric slot that is 0 or 1 (or cancelling terms) can make a symbol disappear: the truth is the result tree itself
    bool hx = false, hy = false, hp = false;
    tree_symbols(*e, hx, hy, hp);
    set_basic fs = free_symbols(*e);
    RCP<const Basic> x = symbol("x"), y = symbol("y"), p = symbol("p");
    verif_assert((fs.count(x) == 1) == hx && (fs.count(y) == 1) == hy && (fs.count(p) == 1) == hp, "free_symbols is exactly the set of symbols occurring in e");
    verif_assert(fs.size() == (unsigned)hx + (unsigned)hy + (unsigned)hp, "free_symbols contains nothing else");
    verif_assert(has_symbol(*e, *x) == hx && has_symbol(*e, *y) == hy && has_symbol(*e, *p) == hp, "has_symbol agrees with free_symbols");
    bool rx = false, ry = false, rp = false;
    recipe_symbols(r, r.root, rx, ry, rp);
    verif_assert((!hx || rx) && (!hy || ry) && (!hp || rp), "no symbol appears that the recipe did not contain");
    // bound positions: a Derivative binds nothing, a Subs binds its variables
    RCP<const Basic> f = function_symbol("f", e);
    set_basic ffs = free_symbols(*f);
    verif_assert(ffs.size() == fs.size(), "free symbols of f(e) are those of e");
    set_basic fns = function_symbols(*add(f, sin(x)));
    verif_assert(fns.size() == 1 && eq(**fns.begin(), *f), "function_symbols returns exactly the undefined function applications");
    VERIF_END();
}
// coeff(p, x, n) reconstructs the expansion of a polynomial with symbolic coefficients
extern "C" void harness_c39_coeff()
{
    long B = verif_param("B", 3);
    RCP<const Basic> x = symbol("x"), y = symbol("y");
    RCP<const Integer> a = vs::sym_integer("a", -B, B), b = vs::sym_integer("b", -B, B), c = vs::sym_integer("c", -B, B);
    // p = a x^2 + (b y) x + c + y   (already expanded)
    RCP<const Basic> pexp = add({mul(a, pow(x, integer(2))), mul(mul(b, y), x), c, y});
    verif_assert(eq(*coeff(*pexp, *x, *integer(2)), *a), "coefficient of x^2");
    verif_assert(eq(*coeff(*pexp, *x, *integer(1)), *mul(b, y)), "coefficient of x");
    verif_assert(eq(*coeff(*pexp, *x, *integer(0)), *add(c, y)), "coefficient of x^0");
    verif_assert(eq(*coeff(*pexp, *x, *integer(3)), *zero), "coefficient of an absent power is zero");
    RCP<const Basic> recon = add({mul(coeff(*pexp, *x, *integer(2)), pow(x, integer(2))), mul(coeff(*pexp, *x, *integer(1)), x), coeff(*pexp, *x, *integer(0))});
    verif_assert(eq(*expand(recon), *expand(pexp)), "sum of coeff(p,x,n) x^n reconstructs p");
    // single-term products with a numeric coefficient: k * x**n * y (and a rational coefficient k/2)
    long n = 1 + (long)verif_choice("n", 3);
    RCP<const Number> k = verif_choice("half", 2) ? (RCP<const Number>)Rational::from_two_ints(*a, *integer(2)) : (RCP<const Number>)a;
    RCP<const Basic> t = mul({k, pow(x, integer(n)), y});
    verif_assert(eq(*coeff(*t, *x, *integer(n)), *mul(k, y)), "coeff(k*x**n*y, x, n) == k*y");
    verif_assert(eq(*coeff(*t, *x, *integer(n + 1)), *zero), "coeff of another power of a single term is zero");
    verif_assert(eq(*coeff(*t, *y, *integer(1)), *mul(k, pow(x, integer(n)))), "coeff(k*x**n*y, y, 1) == k*x**n");
    VERIF_END();
}
