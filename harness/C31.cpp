// C31 — series expansion coefficients equal Taylor coefficients (checked through the defining differential / functional equations)
#include "vsym.h"
#include <symengine/series.h>
#include <symengine/series_generic.h>
using namespace vs;

typedef std::vector<RCP<const Number>> Ser; // coefficients 0..n-1 (exact numbers)
static Ser smul(const Ser &a, const Ser &b, unsigned n)
{
    Ser r(n, zero);
    for (unsigned i = 0; i < n; i++)
        for (unsigned j = 0; i + j < n; j++)
            r[i + j] = r[i + j]->add(*a[i]->mul(*b[j]));
    return r;
}
static Ser sderiv(const Ser &a, unsigned n) // derivative truncated to n-1 terms, padded
{
    Ser r(n, zero);
    for (unsigned i = 1; i < n; i++)
        r[i - 1] = a[i]->mul(*integer((long)i));
    return r;
}
static bool seq(const Ser &a, const Ser &b, unsigned upto)
{
    for (unsigned i = 0; i < upto; i++)
        if (!eq(*a[i], *b[i]))
            return false;
    return true;
}
static Ser coeffs_of(const RCP<const Basic> &e, const RCP<const Symbol> &x, unsigned n)
{
    RCP<const SeriesCoeffInterface> s = series(e, x, n);
    Ser r;
    for (unsigned i = 0; i < n; i++) {
        RCP<const Basic> c = s->get_coeff((int)i);
        verif_assert(is_a_Number(*c), "series coefficients of a numeric-coefficient function are numbers");
        r.push_back(is_a_Number(*c) ? rcp_static_cast<const Number>(c) : (RCP<const Number>)zero);
    }
    return r;
}
extern "C" void harness_c31()
{
    unsigned n = (unsigned)verif_param("order", 5);
    RCP<const Symbol> x = symbol("x");
    // inner function u = c1 x + c2 x^2 (u(0) = 0): c1 symbolic, c2 from a small table
    RCP<const Integer> c1 = sym_integer("c1", -(long)verif_param("B", 3), verif_param("B", 3));
    static const long tab[] = {0, 1, -2, 3};
    RCP<const Integer> c2 = integer(tab[verif_choice("c2", 4)]);
    RCP<const Basic> u = add(mul(c1, x), mul(c2, pow(x, integer(2))));
    Ser U(n, zero);
    if (n > 1)
        U[1] = c1;
    if (n > 2)
        U[2] = c2;
    Ser dU = sderiv(U, n), one_s(n, zero);
    one_s[0] = one;
    int fn = (int)verif_choice("fn", 9);
    switch (fn) {
        case 0: { // s = exp(u): s' = u' s, s(0) = 1
            Ser s = coeffs_of(exp(u), x, n);
            verif_assert(eq(*s[0], *one), "exp(u)(0) = 1");
            verif_assert(seq(sderiv(s, n), smul(dU, s, n), n - 1), "exp: s' = u' s");
            break;
        }
        case 1: { // s = log(1+u): s' (1+u) = u'
            Ser s = coeffs_of(log(add(one, u)), x, n);
            Ser opu = U;
            opu[0] = one;
            verif_assert(eq(*s[0], *zero), "log(1+u)(0) = 0");
            verif_assert(seq(smul(sderiv(s, n), opu, n), dU, n - 1), "log: s' (1+u) = u'");
            break;
        }
        case 2: { // sin / cos pair
            Ser s = coeffs_of(sin(u), x, n), c = coeffs_of(cos(u), x, n);
            verif_assert(eq(*s[0], *zero) && eq(*c[0], *one), "sin(u)(0) = 0, cos(u)(0) = 1");
            verif_assert(seq(sderiv(s, n), smul(dU, c, n), n - 1), "sin' = u' cos");
            Ser mc = smul(dU, s, n);
            for (auto &t : mc)
                t = t->mul(*minus_one);
            verif_assert(seq(sderiv(c, n), mc, n - 1), "cos' = -u' sin");
            break;
        }
        case 3: { // tan: t' = u' (1 + t^2)
            Ser t = coeffs_of(tan(u), x, n);
            Ser rhs = smul(dU, [&] { Ser q = smul(t, t, n); q[0] = q[0]->add(*one); return q; }(), n);
            verif_assert(eq(*t[0], *zero) && seq(sderiv(t, n), rhs, n - 1), "tan' = u' (1 + tan^2)");
            break;
        }
        case 4: { // atan: t' (1 + u^2) = u'
            Ser t = coeffs_of(atan(u), x, n);
            Ser d = smul(U, U, n);
            d[0] = d[0]->add(*one);
            verif_assert(eq(*t[0], *zero) && seq(smul(sderiv(t, n), d, n), dU, n - 1), "atan' (1 + u^2) = u'");
            break;
        }
        case 5: { // sinh / cosh
            Ser s = coeffs_of(sinh(u), x, n), c = coeffs_of(cosh(u), x, n);
            verif_assert(seq(sderiv(s, n), smul(dU, c, n), n - 1) && seq(sderiv(c, n), smul(dU, s, n), n - 1), "sinh' = u' cosh, cosh' = u' sinh");
            verif_assert(eq(*s[0], *zero) && eq(*c[0], *one), "sinh(u)(0) = 0, cosh(u)(0) = 1");
            break;
        }
        case 6: { // 1/(1+u): s (1+u) = 1
            Ser s = coeffs_of(div(one, add(one, u)), x, n);
            Ser opu = U;
            opu[0] = one;
            verif_assert(seq(smul(s, opu, n), one_s, n), "1/(1+u) times (1+u) is 1");
            break;
        }
        case 7: { // sqrt(1+u): s^2 = 1+u
            Ser s = coeffs_of(sqrt(add(one, u)), x, n);
            Ser opu = U;
            opu[0] = one;
            verif_assert(eq(*s[0], *one) && seq(smul(s, s, n), opu, n), "sqrt(1+u)^2 = 1+u");
            break;
        }
        default: { // product and power: (1+u)^3 * exp(u)
            Ser s = coeffs_of(mul(pow(add(one, u), integer(3)), exp(u)), x, n);
            Ser opu = U;
            opu[0] = one;
            Ser e = coeffs_of(exp(u), x, n);
            verif_assert(seq(s, smul(smul(smul(opu, opu, n), opu, n), e, n), n), "series of a product is the product of the series");
            break;
        }
    }
    VERIF_END();
}
