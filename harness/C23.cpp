// C23 — finite-field polynomial arithmetic and factorisation agree with arithmetic modulo p
#include "vsym.h"
#include <symengine/fields.h>
using namespace vs;

typedef std::vector<integer_class> Vec;
static long P;
static integer_class modp(const integer_class &x)
{
    integer_class r;
    mp_fdiv_r(r, x, integer_class(P));
    return r;
}
static Vec sym_vec(const std::string &tag, unsigned n)
{
    Vec v;
    for (unsigned i = 0; i < n; i++)
        v.push_back(sym_integer(tag + std::to_string(i), 0, P - 1)->as_integer_class());
    return v;
}
static Vec strip(Vec v)
{
    while (!v.empty() && modp(v.back()) == 0)
        v.pop_back();
    return v;
}
static Vec conv(const Vec &a, const Vec &b)
{
    if (a.empty() || b.empty())
        return Vec();
    Vec r(a.size() + b.size() - 1, integer_class(0));
    for (size_t i = 0; i < a.size(); i++)
        for (size_t j = 0; j < b.size(); j++)
            r[i + j] = modp(r[i + j] + a[i] * b[j]);
    return strip(r);
}
static Vec vadd(const Vec &a, const Vec &b, int sign)
{
    Vec r(std::max(a.size(), b.size()), integer_class(0));
    for (size_t i = 0; i < r.size(); i++) {
        integer_class x = i < a.size() ? a[i] : integer_class(0), y = i < b.size() ? b[i] : integer_class(0);
        r[i] = modp(sign > 0 ? x + y : x - y);
    }
    return strip(r);
}
static void assert_poly(const GaloisFieldDict &g, const Vec &e0, const char *msg)
{
    Vec e = strip(e0);
    const Vec &d = g.get_dict();
    verif_assert(d.size() == e.size(), msg);
    if (d.size() == e.size())
        for (size_t i = 0; i < e.size(); i++) {
            verif_assert(d[i] >= 0 && d[i] < P, "coefficients are reduced to [0,p)");
            verif_assert(d[i] == e[i], msg);
        }
}
static integer_class horner(const Vec &a, const integer_class &x)
{
    integer_class r(0);
    for (size_t i = a.size(); i-- > 0;)
        r = modp(r * x + a[i]);
    return r;
}
static long pick_p()
{
    static const long ps[] = {2, 3, 5, 7, 11};
    return ps[verif_choice("p", verif_param("nprimes", 3))];
}
extern "C" void harness_c23_ring()
{
    P = pick_p();
    unsigned na = 1 + (unsigned)verif_choice("na", verif_param("nmax", 3)), nb = 1 + (unsigned)verif_choice("nb", verif_param("nmax", 3));
    Vec a = sym_vec("a", na), b = sym_vec("b", nb);
    integer_class p(P);
    GaloisFieldDict A = GaloisFieldDict::from_vec(a, p), B = GaloisFieldDict::from_vec(b, p);
    assert_poly(A, a, "from_vec strips leading zeros");
    assert_poly(A + B, vadd(a, b, 1), "sum agrees with arithmetic modulo p");
    assert_poly(A - B, vadd(a, b, -1), "difference agrees with arithmetic modulo p");
    assert_poly(A * B, conv(strip(a), strip(b)), "product agrees with arithmetic modulo p");
    assert_poly(-A, vadd(Vec(), a, -1), "negation agrees with arithmetic modulo p");
    assert_poly(A.gf_sqr(), conv(strip(a), strip(a)), "square agrees with arithmetic modulo p");
    // evaluation at a symbolic point
    integer_class x = sym_integer("x", 0, P - 1)->as_integer_class();
    verif_assert(A.gf_eval(x) == horner(a, x), "gf_eval agrees with Horner evaluation modulo p");
    // derivative
    Vec d;
    for (size_t i = 1; i < a.size(); i++)
        d.push_back(modp(a[i] * integer_class((long)i)));
    assert_poly(A.gf_diff(), d, "derivative agrees with arithmetic modulo p");
    verif_assert((A == B) == (strip(a) == strip(b)), "equality is coefficient-wise");
    VERIF_END();
}
extern "C" void harness_c23_div()
{
    P = pick_p();
    unsigned na = 1 + (unsigned)verif_choice("na", verif_param("nmax", 3)), nb = 1 + (unsigned)verif_choice("nb", 2);
    Vec a = sym_vec("a", na), b = sym_vec("b", nb);
    verif_assume(!strip(b).empty());
    integer_class p(P);
    GaloisFieldDict A = GaloisFieldDict::from_vec(a, p), B = GaloisFieldDict::from_vec(b, p), Q, R;
    A.gf_div(B, outArg(Q), outArg(R));
    // a == q*b + r and deg r < deg b
    Vec qb = conv(Q.get_dict(), strip(b));
    assert_poly(A, vadd(qb, R.get_dict(), 1), "a == q*b + r modulo p");
    verif_assert(R.get_dict().empty() || R.get_dict().size() < strip(b).size(), "deg r < deg b");
    assert_poly(A / B, Q.get_dict(), "operator/ is the quotient");
    assert_poly(A % B, R.get_dict(), "operator% is the remainder");
    // gcd divides both; lcm * gcd == a*b up to the leading coefficient (monic)
    GaloisFieldDict G = A.gf_gcd(B);
    if (!strip(a).empty()) {
        GaloisFieldDict q1, r1, q2, r2;
        A.gf_div(G, outArg(q1), outArg(r1));
        B.gf_div(G, outArg(q2), outArg(r2));
        verif_assert(r1.get_dict().empty() && r2.get_dict().empty(), "gcd divides both operands");
        verif_assert(!G.get_dict().empty() && G.get_dict().back() == 1, "gcd is monic");
        // any common root is a root of the gcd
        integer_class x = sym_integer("x", 0, P - 1)->as_integer_class();
        if (horner(a, x) == 0 && horner(b, x) == 0)
            verif_assert(horner(G.get_dict(), x) == 0, "a common root of a and b is a root of gcd(a,b)");
    }
    // monic normalisation
    integer_class lc;
    GaloisFieldDict M;
    A.gf_monic(lc, outArg(M));
    if (!strip(a).empty()) {
        verif_assert(lc == strip(a).back(), "gf_monic returns the leading coefficient");
        Vec lm;
        for (auto &c : M.get_dict())
            lm.push_back(modp(c * lc));
        assert_poly(A, lm, "a == lc * monic(a)");
        verif_assert(M.get_dict().back() == 1, "monic polynomial has leading coefficient 1");
    }
    // powers
    unsigned k = (unsigned)verif_choice("k", 4);
    Vec e = {integer_class(1)};
    for (unsigned i = 0; i < k; i++)
        e = conv(e, strip(a));
    if (strip(a).empty() && k > 0)
        e = Vec();
    assert_poly(A.gf_pow(k), e, "gf_pow agrees with repeated multiplication");
    VERIF_END();
}
// factorisation: factors multiply back to the monic input, are monic and irreducible (degree <= 3: no roots)
static void factor_body();
extern "C" void harness_c23_factor() { factor_body(); }
// the same check under a second set of bounds (higher degree over the smallest fields)
extern "C" void harness_c23_factor_deg3() { factor_body(); }
extern "C" void harness_c23_factor_deg4() { factor_body(); }
static void factor_body()
{
    P = pick_p();
    unsigned na = 2 + (unsigned)verif_choice("na", verif_param("fmax", 2)); // degree 1..2 (3)
    Vec a = sym_vec("a", na);
    verif_assume(modp(a.back()) != 0);
    integer_class p(P);
    GaloisFieldDict A = GaloisFieldDict::from_vec(a, p);
    integer_class lc;
    GaloisFieldDict M;
    A.gf_monic(lc, outArg(M));
    std::pair<integer_class, std::set<std::pair<GaloisFieldDict, unsigned>, GaloisFieldDict::DictLess>> f = A.gf_factor();
    verif_assert(f.first == lc, "factorisation returns the leading coefficient");
    Vec prod = {integer_class(1)};
    for (auto &fm : f.second) {
        const Vec &d = fm.first.get_dict();
        verif_assert(d.size() >= 2 && d.back() == 1, "factors are monic and non-constant");
        for (unsigned i = 0; i < fm.second; i++)
            prod = conv(prod, d);
        if (d.size() == 3 || d.size() == 4) { // degree 2 or 3: irreducible iff no root
            integer_class x = sym_integer("x", 0, P - 1)->as_integer_class();
            verif_assert(horner(d, x) != 0, "factors of degree 2 and 3 have no root (irreducible)");
        }
    }
    assert_poly(M, prod, "the factors multiply back to the monic input");
    // square-free decomposition: prod g_i^i == monic input, with the stated multiplicities
    std::vector<std::pair<GaloisFieldDict, unsigned>> sq = A.gf_sqf_list();
    Vec sprod = {integer_class(1)};
    for (auto &fm : sq) {
        verif_assert(fm.second >= 1, "multiplicities are positive");
        for (unsigned i = 0; i < fm.second; i++)
            sprod = conv(sprod, fm.first.get_dict());
    }
    assert_poly(M, sprod, "the square-free factors with their multiplicities multiply back to the monic input");
    VERIF_END();
}
