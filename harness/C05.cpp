// C05 — exact number arithmetic (Integer, Rational, Gaussian rational) is correct and normalised
#include "vsym.h"
#include <gmpxx.h>
using namespace vs;

// oracle numbers: unnormalised fractions over Z handled with GMP calls made directly by the harness (exact Z in the engine's model)
struct Q {
    integer_class n, d; // d != 0
};
static Q qadd(const Q &a, const Q &b) { return {a.n * b.d + b.n * a.d, a.d * b.d}; }
static Q qsub(const Q &a, const Q &b) { return {a.n * b.d - b.n * a.d, a.d * b.d}; }
static Q qmul(const Q &a, const Q &b) { return {a.n * b.n, a.d * b.d}; }
static Q qdiv(const Q &a, const Q &b) { return {a.n * b.d, a.d * b.n}; }
static bool qzero(const Q &a) { return a.n == 0; }
struct C {
    Q re, im;
};
static Q qof(const Number &x)
{
    if (is_a<Integer>(x))
        return {down_cast<const Integer &>(x).as_integer_class(), integer_class(1)};
    const rational_class &q = down_cast<const Rational &>(x).as_rational_class();
    return {get_num(q), get_den(q)};
}
static C cof(const Number &x)
{
    if (is_a<Complex>(x)) {
        const Complex &c = down_cast<const Complex &>(x);
        return {{get_num(c.real_), get_den(c.real_)}, {get_num(c.imaginary_), get_den(c.imaginary_)}};
    }
    return {qof(x), {integer_class(0), integer_class(1)}};
}
static void assert_qeq(const Q &a, const Q &b, const char *msg)
{
    integer_class l = a.n * b.d, r = b.n * a.d;
    verif_assert_mpz_eq(get_mpz_t(l), get_mpz_t(r), msg);
}
// normal form of an exact number
static void assert_normal(const Number &r)
{
    verif_assert(is_a<Integer>(r) || is_a<Rational>(r) || is_a<Complex>(r), "exact operands give an exact result");
    auto rat_ok = [](const rational_class &q, bool mustBeFraction) {
        integer_class g;
        mp_gcd(g, get_num(q), get_den(q));
        verif_assert(g == 1, "rational is in lowest terms");
        verif_assert(get_den(q) > 0, "denominator is positive");
        if (mustBeFraction)
            verif_assert(get_den(q) != 1, "a Rational object never has denominator 1 (it is an Integer)");
    };
    if (is_a<Rational>(r))
        rat_ok(down_cast<const Rational &>(r).as_rational_class(), true);
    if (is_a<Complex>(r)) {
        const Complex &c = down_cast<const Complex &>(r);
        rat_ok(c.real_, false);
        rat_ok(c.imaginary_, false);
        verif_assert(get_num(c.imaginary_) != 0, "a Complex object never has zero imaginary part");
    }
}
static long g_gmax = 0;
static RCP<const Number> operand(int kind, const std::string &tag, long nmax, long dmax)
{
    switch (kind) {
        case 0:
            return sym_integer(nm(tag, "i"), -nmax, nmax);
        case 1:
            return sym_rational(tag, nmax, dmax);
        default: { // (re + im*i)/d with one common (unnormalised) denominator
            long g = g_gmax ? g_gmax : verif_param("gmax", 30);
            RCP<const Integer> re = sym_integer(nm(tag, "re"), -g, g), im = sym_integer(nm(tag, "im"), -g, g);
            RCP<const Integer> d = integer(1 + (long)verif_choice(nm(tag, "gd").c_str(), verif_param("gdmax", 2)));
            return Complex::from_two_nums(*Rational::from_two_ints(*re, *d), *Rational::from_two_ints(*im, *d));
        }
    }
}
extern "C" void harness_c05_binop()
{
    int ka = (int)verif_choice("ka", verif_param("kinds", 3)), kb = (int)verif_choice("kb", verif_param("kinds", 3)), op = (int)verif_choice("op", 4);
    bool big = op < 2 && ka < 2 && kb < 2; // additive operations on real operands: large numerators
    long nmax = big ? verif_param("nmax_add", 2000000000L) : verif_param("nmax_mul", 1000), dmax = verif_param("dmax", 4);
    // the numerator of a divisor ends up in the denominator and is concretised by the gcd model: keep its range small
    RCP<const Number> a = operand(ka, "a", nmax, dmax);
    if (op == 3 && kb == 2)
        g_gmax = verif_param("gdivmax", 2); // the divisor's norm re^2+im^2 is concretised by the gcd model
    RCP<const Number> b = operand(kb, "b", op == 3 ? verif_param("divmax", 12) : nmax, dmax);
    g_gmax = 0;
    C x = cof(*a), y = cof(*b), e;
    RCP<const Number> r;
    switch (op) {
        case 0:
            r = a->add(*b);
            e = {qadd(x.re, y.re), qadd(x.im, y.im)};
            break;
        case 1:
            r = a->sub(*b);
            e = {qsub(x.re, y.re), qsub(x.im, y.im)};
            break;
        case 2:
            r = a->mul(*b);
            e = {qsub(qmul(x.re, y.re), qmul(x.im, y.im)), qadd(qmul(x.re, y.im), qmul(x.im, y.re))};
            break;
        default: {
            // Number::div(Rational, Complex) is not implemented (the repository's own test_basic expects NotImplementedError)
            bool known = is_a<Rational>(*a) && is_a<Complex>(*b) && verif_known("C05/rational-div-complex-not-implemented", true);
            r = a->div(*b);
            if (known)
                verif_known_end();
            if (qzero(y.re) && qzero(y.im)) {
                // division by exact zero: zoo, or nan for 0/0
                bool azero = qzero(x.re) && qzero(x.im);
                if (azero)
                    verif_assert(is_a<NaN>(*r), "0/0 is nan");
                else
                    verif_assert(is_a<Infty>(*r) && down_cast<const Infty &>(*r).is_unsigned_infinity(), "x/0 is zoo for exact x != 0");
                VERIF_END();
                return;
            }
            Q den = qadd(qmul(y.re, y.re), qmul(y.im, y.im));
            e = {qdiv(qadd(qmul(x.re, y.re), qmul(x.im, y.im)), den), qdiv(qsub(qmul(x.im, y.re), qmul(x.re, y.im)), den)};
        }
    }
    assert_normal(*r);
    C g = cof(*r);
    assert_qeq(g.re, e.re, "real part of the result is exact");
    assert_qeq(g.im, e.im, "imaginary part of the result is exact");
    verif_assert(is_a<Complex>(*r) == !qzero(e.im), "result is real exactly when the imaginary part is zero");
    if (!is_a<Complex>(*r)) {
        // Integer exactly when the value is integral
        integer_class rem;
        mp_fdiv_r(rem, e.re.n, e.re.d);
        verif_assert(is_a<Integer>(*r) == (rem == 0), "result is an Integer exactly when the value is integral");
    }
    VERIF_END();
}
// integer powers of either sign
extern "C" void harness_c05_pow()
{
    int ka = (int)verif_choice("ka", 3);
    long k = (long)verif_choice("k", 2 * verif_param("kmax", 4) + 1) - verif_param("kmax", 4);
    RCP<const Number> a = operand(ka, "a", verif_param("pmax", 12), 3);
    C x = cof(*a);
    bool azero = qzero(x.re) && qzero(x.im);
    RCP<const Number> r = a->pow(*integer(k));
    if (azero && k < 0) {
        verif_assert(is_a<Infty>(*r) && down_cast<const Infty &>(*r).is_unsigned_infinity(), "0**negative is zoo");
        VERIF_END();
        return;
    }
    // oracle over one common denominator L: a = (u + v i)/L, a^|k| = (U + V i)/L^|k| by repeated Gaussian-integer multiplication;
    // for k < 0 the reciprocal is L^|k| (U - V i)/(U^2 + V^2)  (fractions are kept small so that the one-limb model suffices)
    integer_class L = x.re.d * x.im.d, u = x.re.n * x.im.d, v = x.im.n * x.re.d, U = 1, V = 0, D = 1;
    for (long i = 0; i < (k < 0 ? -k : k); i++) {
        integer_class nU = U * u - V * v, nV = U * v + V * u;
        U = nU;
        V = nV;
        D *= L;
    }
    C e;
    if (k >= 0)
        e = {{U, D}, {V, D}};
    else {
        integer_class nrm = U * U + V * V;
        e = {{D * U, nrm}, {integer_class(0) - D * V, nrm}};
    }
    assert_normal(*r);
    C g = cof(*r);
    assert_qeq(g.re, e.re, "real part of the power is exact");
    assert_qeq(g.im, e.im, "imaginary part of the power is exact");
    VERIF_END();
}
// the same operations through the expression-level API and neg
extern "C" void harness_c05_api()
{
    int ka = (int)verif_choice("ka", 2), kb = (int)verif_choice("kb", 2);
    long amax = verif_param("apimax", 300);
    RCP<const Number> a = operand(ka, "a", amax, 3), b = operand(kb, "b", kb == 0 ? 12 : amax, 3);
    verif_assert(eq(*add(a, b), *a->add(*b)), "add() on numbers is Number::add");
    verif_assert(eq(*mul(a, b), *a->mul(*b)), "mul() on numbers is Number::mul");
    verif_assert(eq(*sub(a, b), *a->sub(*b)), "sub() on numbers is Number::sub");
    RCP<const Basic> n = neg(a);
    verif_assert(is_a_Number(*n) && eq(*add(n, a), *zero), "a + neg(a) == 0");
    C x = cof(*b);
    if (!qzero(x.re))
        verif_assert(eq(*div(a, b), *a->div(*b)), "div() on numbers is Number::div");
    VERIF_END();
}
