// C13 — lambda double callbacks compute the expression's value (real abstraction of the floating-point code)
#include "vrecipe.h"
#include <symengine/lambda_double.h>
#include <symengine/sets.h>
using namespace vr;

static Gen make_gen()
{
    Gen g;
    g.leaves = {L_X, L_Y, L_NUM};
    g.nums = {{2, 1}, {-1, 2}, {3, 1}};
    g.unary = {O_NEG, O_POWI, O_SIN, O_COS, O_TAN, O_EXP, O_LOG, O_SINH, O_COSH, O_ATAN, O_ERF};
    g.binary = {O_ADD, O_SUB, O_MUL, O_DIV};
    g.ipows = {2, 3, -1};
    return g;
}
extern "C" void harness_c13_lambda()
{
    Gen g = make_gen();
    Recipe r1, r2;
    r1.root = g.gen(r1, (int)verif_param("depth", 2), "t");
    r2.root = g.gen(r2, (int)verif_param("udepth", 1), "u");
    ve::Env env;
    env.val["x"] = verif_real("x");
    env.val["y"] = verif_real("y");
    RCP<const Basic> e1 = build_or_skip(r1, r1.root), e2 = build_or_skip(r2, r2.root);
    // second output shares a subterm with the first (what cse is about)
    RCP<const Basic> shared = add(e1, e2), out3 = mul(e1, add(e1, integer(1)));
    bool cse = verif_choice("cse", 2);
    LambdaRealDoubleVisitor v;
    try {
        v.init({symbol("x"), symbol("y")}, {e1, shared, out3}, cse);
    } catch (NotImplementedError &) {
        // e.g. log of a negative constant is a complex number: the real evaluator refuses it, which is not a wrong value
        VERIF_END();
        return;
    }
    double in[2] = {env.val["x"], env.val["y"]}, out[3] = {0, 0, 0};
    v.call(out, in);
    Dual a = eval(r1, r1.root, env, ""), b = eval(r2, r2.root, env, "");
    verif_assert_req(out[0], a.v, "lambda output 0 is the value of the expression at the inputs");
    verif_assert_req(out[1], a.v + b.v, "lambda output 1 (shares a subterm) is the value of the expression");
    verif_assert_req(out[2], a.v * (a.v + 1.0), "lambda output 2 is the value of the expression");
    // re-initialisation behaves like a fresh evaluator (also when the cse setting changes)
    bool cse2 = verif_param("cse2flip", 0) ? !cse : (bool)verif_choice("cse2", 2);
    v.init({symbol("y"), symbol("x")}, {e2}, cse2);
    double in2[2] = {env.val["y"], env.val["x"]}, o2[1] = {0};
    v.call(o2, in2);
    verif_assert_req(o2[0], b.v, "a re-initialised evaluator computes the new output");
    VERIF_END();
}
// relationals, logic, Piecewise, max/min, sign, floor
extern "C" void harness_c13_logic()
{
    double xv = verif_real("x"), yv = verif_real("y");
    RCP<const Basic> x = symbol("x"), y = symbol("y");
    int k = (int)verif_choice("k", 10);
    RCP<const Basic> e;
    double ref;
    switch (k) {
        case 0: e = max({x, y, integer(1)}); ref = (xv > yv ? xv : yv) > 1.0 ? (xv > yv ? xv : yv) : 1.0; break;
        case 1: e = min({x, y}); ref = xv < yv ? xv : yv; break;
        case 2: e = sign(x); ref = xv > 0 ? 1.0 : (xv < 0 ? -1.0 : 0.0); break;
        case 3: e = abs(sub(x, y)); ref = xv - yv < 0 ? yv - xv : xv - yv; break;
        case 4: e = piecewise({{x, Lt(x, y)}, {mul(integer(2), y), boolTrue}}); ref = xv < yv ? xv : 2.0 * yv; break;
        case 5: e = Lt(x, y); ref = xv < yv ? 1.0 : 0.0; break;
        case 6: e = logical_and({Le(x, y), Ne(x, integer(0))}); ref = (xv <= yv && xv != 0.0) ? 1.0 : 0.0; break;
        case 7: e = logical_or({Eq(x, y), Gt(x, integer(2))}); ref = (xv == yv || xv > 2.0) ? 1.0 : 0.0; break;
        case 8: { // membership in an interval with every combination of open / closed ends
            bool lo = verif_choice("lo", 2), ro = verif_choice("ro", 2);
            e = contains(x, interval(integer(2), integer(5), lo, ro));
            ref = ((lo ? xv > 2.0 : xv >= 2.0) && (ro ? xv < 5.0 : xv <= 5.0)) ? 1.0 : 0.0;
            break;
        }
        default: {
            bool lo = verif_choice("lo", 2), ro = verif_choice("ro", 2);
            e = piecewise({{x, contains(x, interval(integer(-1), integer(3), lo, ro))}, {y, boolTrue}});
            ref = ((lo ? xv > -1.0 : xv >= -1.0) && (ro ? xv < 3.0 : xv <= 3.0)) ? xv : yv;
            break;
        }
    }
    bool cse = verif_choice("cse", 2);
    LambdaRealDoubleVisitor v;
    v.init({x, y}, {e}, cse);
    double in[2] = {xv, yv}, out[1] = {0};
    v.call(out, in);
    verif_assert_req(out[0], ref, "lambda evaluation of relational / logic / piecewise / max / min / sign / abs");
    VERIF_END();
}
