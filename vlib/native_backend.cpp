// Native replay backend: implements the verif_* intrinsics over concrete inputs read from a file, so that a harness (the
// same source that symx executes symbolically) runs against a native build of /repo's sources.
//   usage: replay <entry> <inputs-file>        inputs-file: lines "kind:name value"
// exit 0 = all assertions held, 1 = "ASSERT-FAILED <msg>" printed, other = crash / uncaught exception
#include "verif.h"
#include <cmath>
#include <cstdio>
#include <cstdlib>
#include <cstring>
#include <dlfcn.h>
#include <gmpxx.h>
#include <map>
#include <string>

static std::map<std::string, std::string> g_in;
static std::map<std::string, long> g_param;

static const std::string *look(const char *kind, const std::string &name)
{
    auto it = g_in.find(std::string(kind) + ":" + name);
    return it == g_in.end() ? nullptr : &it->second;
}
static void fail(const char *what, const char *msg)
{
    printf("ASSERT-FAILED %s: %s\n", what, msg);
    fflush(stdout);
    _Exit(1);
}
extern "C" {
int64_t verif_i64(const char *name, int64_t lo, int64_t hi)
{
    const std::string *v = look("i64", name);
    if (!v)
        return lo <= 0 && hi >= 0 ? 0 : lo;
    return (int64_t)strtoull(v->c_str(), nullptr, 10);
}
uint64_t verif_choice(const char *name, uint64_t n)
{
    const std::string *v = look("i64", name);
    return v ? strtoull(v->c_str(), nullptr, 10) : 0;
}
int64_t verif_param(const char *name, int64_t dflt)
{
    auto it = g_param.find(name);
    return it == g_param.end() ? dflt : it->second;
}
double verif_double(const char *name)
{
    const std::string *v = look("double", name);
    uint64_t u = v ? strtoull(v->c_str(), nullptr, 10) : 0;
    double d;
    memcpy(&d, &u, 8);
    return d;
}
double verif_real(const char *name)
{
    const std::string *v = look("real", name);
    if (!v)
        return 0.0;
    mpq_class q(*v);
    return q.get_d();
}
void verif_mode_real(void) {}
double verif_rational(int64_t p, int64_t q) { return (double)p / (double)q; }
void verif_bytes(void *buf, uint64_t n, const char *name)
{
    for (uint64_t i = 0; i < n; i++) {
        const std::string *v = look("u8", std::string(name) + "[" + std::to_string(i) + "]");
        ((unsigned char *)buf)[i] = v ? (unsigned char)strtoul(v->c_str(), nullptr, 10) : 0;
    }
}
void verif_mpz(mpz_ptr z, const char *name, int64_t lo, int64_t hi)
{
    const std::string *v = look("int", name);
    if (v)
        mpz_set_str(z, v->c_str(), 10);
    else
        mpz_set_si(z, lo <= 0 && hi >= 0 ? 0 : lo);
}
void verif_mpz_bv(mpz_ptr z, const char *name, int64_t lo, int64_t hi)
{
    const std::string *v = look("i64", name);
    if (v)
        mpz_set_si(z, (long)strtoull(v->c_str(), nullptr, 10));
    else
        mpz_set_si(z, lo <= 0 && hi >= 0 ? 0 : lo);
}
double verif_mpz_real(mpz_srcptr z)
{
    return mpz_get_d(z);
}
int verif_mpz_is_symbolic(mpz_srcptr) { return 0; }
void verif_assume(bool c)
{
    if (!c) {
        printf("ASSUME-FALSE\n");
        fflush(stdout);
        _Exit(3);
    }
}
void verif_axiom(bool) {}
void verif_assert(bool c, const char *msg)
{
    if (!c)
        fail("assert", msg);
}
void verif_assert_req(double a, double b, const char *msg)
{
    if (std::isnan(a) && std::isnan(b))
        return;
    double m = std::fmax(1.0, std::fmax(std::fabs(a), std::fabs(b)));
    if (!(std::fabs(a - b) <= 1e-7 * m)) {
        printf("REQ a=%.17g b=%.17g\n", a, b);
        fail("assert_req", msg);
    }
}
void verif_assert_mpz_eq(mpz_srcptr a, mpz_srcptr b, const char *msg)
{
    if (mpz_cmp(a, b) != 0)
        fail("assert_mpz_eq", msg);
}
int verif_known(const char *, bool) { return 0; }
void verif_known_end(void) {}
void verif_observe_i64(const char *tag, int64_t v)
{
    printf("OBS %s %lld\n", tag, (long long)v);
}
void verif_observe_mpz(const char *tag, mpz_srcptr v)
{
    char *s = mpz_get_str(nullptr, 10, v);
    printf("OBS %s %s\n", tag, s);
    free(s);
}
int64_t verif_concretize(int64_t v) { return v; }
void verif_note(const char *) {}
int verif_is_symbolic(int64_t) { return 0; }
int verif_symbolic_exec(void) { return 0; }
double verif_uf1(const char *name, double x)
{
    // the uninterpreted symbols of the real abstraction stand for the libm functions
    static const struct { const char *n; double (*f)(double); } T[] = {{"SIN", ::sin}, {"COS", ::cos}, {"TAN", ::tan}, {"EXP", ::exp}, {"LOG", ::log}, {"ASIN", ::asin}, {"ACOS", ::acos},
        {"ATAN", ::atan}, {"SINH", ::sinh}, {"COSH", ::cosh}, {"TANH", ::tanh}, {"ASINH", ::asinh}, {"ACOSH", ::acosh}, {"ATANH", ::atanh}, {"ERF", ::erf}, {"ERFC", ::erfc},
        {"GAMMA", ::tgamma}, {"LGAMMA", ::lgamma}, {"ROOT2", ::sqrt}};
    for (auto &t : T)
        if (!strcmp(t.n, name))
            return t.f(x);
    if (!strcmp(name, "ROOT12"))
        return ::pow(x, 1.0 / 12);
    fprintf(stderr, "verif_uf1(%s) has no native meaning\n", name);
    _Exit(4);
}
double verif_uf2(const char *name, double x, double y)
{
    fprintf(stderr, "verif_uf2(%s) has no native meaning\n", name);
    _Exit(4);
}
void verif_leakcheck(int) {}
// the random source is part of the environment: the n-th mpz_urandomm call returns the value the solver chose for it
static int g_rand_calls = 0;
void __gmpz_urandomm(mpz_ptr rop, gmp_randstate_t, mpz_srcptr n)
{
    const std::string *v = look("int", "urandomm#" + std::to_string(g_rand_calls));
    if (!v)
        v = look("i64", "urandomm#" + std::to_string(g_rand_calls));
    g_rand_calls++;
    if (v)
        mpz_set_str(rop, v->c_str(), 10);
    else
        mpz_set_ui(rop, 0);
    if (mpz_cmp(rop, n) >= 0 || mpz_sgn(rop) < 0)
        mpz_set_ui(rop, 0);
}
void __verif_assert_fail(const char *file, int line, const char *cond)
{
    printf("ASSERT-FAILED SYMENGINE_ASSERT: %s at %s:%d\n", cond, file, line);
    fflush(stdout);
    _Exit(1);
}
}

int main(int argc, char **argv)
{
    if (argc < 3) {
        fprintf(stderr, "usage: replay <entry> <inputs-file> [param=value ...]\n");
        return 2;
    }
    FILE *f = fopen(argv[2], "r");
    if (!f) {
        perror("inputs");
        return 2;
    }
    char line[65536];
    while (fgets(line, sizeof line, f)) {
        char *sp = strchr(line, ' ');
        if (!sp)
            continue;
        *sp = 0;
        std::string v(sp + 1);
        while (!v.empty() && (v.back() == '\n' || v.back() == '\r'))
            v.pop_back();
        g_in[line] = v;
    }
    fclose(f);
    for (int i = 3; i < argc; i++) {
        char *eq = strchr(argv[i], '=');
        if (eq)
            g_param[std::string(argv[i], eq - argv[i])] = atol(eq + 1);
    }
    void (*fn)() = (void (*)())dlsym(RTLD_DEFAULT, argv[1]);
    if (!fn) {
        fprintf(stderr, "no entry %s\n", argv[1]);
        return 2;
    }
    fn();
    printf("REPLAY-OK\n");
    return 0;
}
