// veval.h — oracle domain D2: the real-number meaning of a SymEngine expression tree, written from the mathematical definition of
// each node type (never by calling the function under test).  Under symx the doubles are z3 Reals and libm calls are uninterpreted
// function symbols (SIN, COS, EXP, LOG, ...) constrained by the axiom instances added below; in the native replay build the same
// code computes with IEEE doubles and the real libm.
#pragma once
#include "vsym.h"
#include <cmath>
#include <map>
#include <symengine/visitor.h>
#include <symengine/logic.h>

namespace ve
{
using namespace SymEngine;

// numeric mode: plain IEEE evaluation with the host libm also under symx (used for concrete special-value tables)
static bool g_numeric = false;

struct Unsupported {
    std::string what;
};

// positive symbols carry a 12th root so that rational powers with denominators 1,2,3,4,6,12 are polynomial in the root
struct Env {
    std::map<std::string, double> val;
    std::map<std::string, double> root12; // only for symbols declared positive
    std::map<std::string, double> fsym;   // values of opaque function applications f(args) keyed by their printed form
    bool sqrt_only = false;               // the harness uses no radicals other than square roots: v**(p/2) through a degree-2 root
};

inline double real_const(const char *name, double native, double lo, double hi)
{
    if (!verif_symbolic_exec() || g_numeric)
        return native;
    double v = verif_real(name);
    verif_axiom(v > lo);
    verif_axiom(v < hi);
    return v;
}
// The double evaluators use the IEEE literals for pi and E; in the real abstraction these are exact rationals.
inline double c_pi()
{
    return M_PI;
}
inline double Exp(double u);
inline double c_e()
{
    return Exp(1.0); // E is EXP(1): exp(u) is represented as E**u by the library
}
inline double ipow(double b, long n)
{
    double r = 1.0;
    long m = n < 0 ? -n : n;
    for (long i = 0; i < m; i++)
        r = r * b;
    return n < 0 ? 1.0 / r : r;
}
// principal 12th root of a positive real
inline double root12_of(double v)
{
    if (!verif_symbolic_exec() || g_numeric)
        return std::pow(v, 1.0 / 12);
    double r = verif_uf1("ROOT12", v);
    verif_axiom(v <= 0 || r > 0);
    verif_axiom(v <= 0 || ipow(r, 12) == v);
    verif_axiom(v != 0 || r == 0);
    return r;
}
// principal square root as its own symbol (degree-2 constraints instead of the 12th-root encoding)
inline double sqrt_of(double v)
{
    if (!verif_symbolic_exec() || g_numeric)
        return std::sqrt(v);
    double r = verif_uf1("ROOT2", v);
    verif_axiom(v < 0 || r >= 0);
    verif_axiom(v < 0 || r * r == v);
    return r;
}
// axiom instances for an argument u (added once per call; the native replay backend ignores verif_axiom)
inline void trig_axioms(double u)
{
    if (!verif_symbolic_exec() || g_numeric)
        return;
    // (the mirrored applications go through verif_uf1: the compiler would fold ::sin(-u) to -::sin(u) by itself)
    double s = ::sin(u), c = ::cos(u), sm = verif_uf1("SIN", -u), cm = verif_uf1("COS", -u);
    verif_axiom(s * s + c * c == 1.0);
    verif_axiom(sm == -s);
    verif_axiom(cm == c);
    verif_axiom(u != 0.0 || s == 0.0);
    verif_axiom(u != 0.0 || c == 1.0);
}
inline double Sin(double u)
{
    trig_axioms(u);
    return ::sin(u);
}
inline double Cos(double u)
{
    trig_axioms(u);
    return ::cos(u);
}
inline double Exp(double u)
{
    double e = ::exp(u);
    if (verif_symbolic_exec() && !g_numeric) {
        double m = verif_uf1("EXP", -u);
        verif_axiom(e > 0);
        verif_axiom(m > 0);
        verif_axiom(e * m == 1.0);
        verif_axiom(u != 0.0 || e == 1.0);
    }
    return e;
}
// odd functions with f(0) = 0
inline double odd_fn(const char *name, double (*f)(double), double u)
{
    double v = f(u);
    if (verif_symbolic_exec() && !g_numeric) {
        verif_axiom(verif_uf1(name, -u) == -v);
        verif_axiom(u != 0.0 || v == 0.0);
        // exact special values the library folds (inverse trigonometric table)
        std::string nm(name);
        if (nm == "ATAN")
            verif_axiom(verif_uf1(name, 1.0) == c_pi() * verif_rational(1, 4));
        if (nm == "ASIN") {
            verif_axiom(verif_uf1(name, 1.0) == c_pi() * verif_rational(1, 2));
            verif_axiom(verif_uf1(name, verif_rational(1, 2)) == c_pi() * verif_rational(1, 6));
        }
    }
    return v;
}
inline double Log(double u)
{
    double v = ::log(u);
    if (verif_symbolic_exec() && !g_numeric)
        verif_axiom(u != 1.0 || v == 0.0);
    return v;
}

inline double num_value(const Number &n)
{
    if (g_numeric) {
        if (is_a<Integer>(n))
            return mp_get_d(down_cast<const Integer &>(n).as_integer_class());
        if (is_a<Rational>(n))
            return mp_get_d(down_cast<const Rational &>(n).as_rational_class());
    }
    if (is_a<Integer>(n))
        return verif_mpz_real(get_mpz_t(down_cast<const Integer &>(n).as_integer_class()));
    if (is_a<Rational>(n)) {
        const rational_class &q = down_cast<const Rational &>(n).as_rational_class();
        return verif_mpz_real(get_mpz_t(get_num(q))) / verif_mpz_real(get_mpz_t(get_den(q)));
    }
    if (is_a<RealDouble>(n))
        return down_cast<const RealDouble &>(n).i;
    throw Unsupported{"non-real number " + n.__str__()};
}

inline double ev(const Basic &b, Env &env);

// value of base^exp for a positive base given with its 12th root (root may be NaN = unknown)
inline double pow_value(const Basic &base, const Basic &ex, Env &env)
{
    if (is_a<Constant>(base) && eq(base, *E))
        return Exp(ev(ex, env));
    if (is_a<Integer>(ex)) {
        const Integer &n = down_cast<const Integer &>(ex);
        if (verif_mpz_is_symbolic(get_mpz_t(n.as_integer_class())))
            throw Unsupported{"symbolic integer exponent"};
        return ipow(ev(base, env), mp_get_si(n.as_integer_class()));
    }
    if (is_a<Constant>(base) && eq(base, *E))
        return Exp(ev(ex, env));
    if (is_a<Rational>(ex)) {
        const rational_class &q = down_cast<const Rational &>(ex).as_rational_class();
        if (verif_mpz_is_symbolic(get_mpz_t(get_num(q))) || verif_mpz_is_symbolic(get_mpz_t(get_den(q))))
            throw Unsupported{"symbolic rational exponent"};
        long p = mp_get_si(get_num(q)), d = mp_get_si(get_den(q));
        if (12 % d != 0)
            throw Unsupported{"rational exponent with denominator not dividing 12"};
        double r;
        if (env.sqrt_only && d == 2 && !is_a<Symbol>(base)) {
            // principal square root as its own symbol: r >= 0, r*r == v (keeps the solver's polynomials at degree 2)
            double v = ev(base, env);
            double r2 = v;
            if (verif_symbolic_exec() && !g_numeric) {
                r2 = verif_uf1("ROOT2", v);
                verif_axiom(v < 0 || r2 >= 0);
                verif_axiom(v < 0 || r2 * r2 == v);
            } else
                r2 = std::sqrt(v);
            return ipow(r2, p);
        }
        if (is_a<Symbol>(base)) {
            auto it = env.root12.find(down_cast<const Symbol &>(base).get_name());
            if (it == env.root12.end())
                throw Unsupported{"rational power of a symbol not declared positive"};
            r = it->second;
        } else {
            double v = ev(base, env);
            r = root12_of(v);
        }
        return ipow(r, p * (12 / d));
    }
    return ::pow(ev(base, env), ev(ex, env));
}

inline double ev(const Basic &b, Env &env)
{
    if (is_a_Number(b))
        return num_value(down_cast<const Number &>(b));
    switch (b.get_type_code()) {
        case SYMENGINE_SYMBOL: {
            auto it = env.val.find(down_cast<const Symbol &>(b).get_name());
            if (it == env.val.end())
                throw Unsupported{"free symbol " + b.__str__()};
            return it->second;
        }
        case SYMENGINE_CONSTANT:
            if (eq(b, *pi))
                return c_pi();
            if (eq(b, *E))
                return c_e();
            throw Unsupported{"constant " + b.__str__()};
        case SYMENGINE_ADD: {
            double s = 0.0;
            for (auto &a : b.get_args())
                s = s + ev(*a, env);
            return s;
        }
        case SYMENGINE_MUL: {
            double p = 1.0;
            for (auto &a : b.get_args())
                p = p * ev(*a, env);
            return p;
        }
        case SYMENGINE_POW: {
            vec_basic a = b.get_args();
            return pow_value(*a[0], *a[1], env);
        }
        case SYMENGINE_FUNCTIONSYMBOL: {
            auto it = env.fsym.find(b.__str__());
            if (it == env.fsym.end())
                throw Unsupported{"opaque function application " + b.__str__()};
            return it->second;
        }
        default:
            break;
    }
    vec_basic a = b.get_args();
    if (a.size() == 1) {
        double u = ev(*a[0], env);
        switch (b.get_type_code()) {
            case SYMENGINE_SIN: return Sin(u);
            case SYMENGINE_COS: return Cos(u);
            case SYMENGINE_TAN: return Sin(u) / Cos(u);
            case SYMENGINE_COT: return Cos(u) / Sin(u);
            case SYMENGINE_SEC: return 1.0 / Cos(u);
            case SYMENGINE_CSC: return 1.0 / Sin(u);
            case SYMENGINE_SINH: return (Exp(u) - Exp(-u)) / 2.0;
            case SYMENGINE_COSH: return (Exp(u) + Exp(-u)) / 2.0;
            case SYMENGINE_TANH: return (Exp(u) - Exp(-u)) / (Exp(u) + Exp(-u));
            case SYMENGINE_COTH: return (Exp(u) + Exp(-u)) / (Exp(u) - Exp(-u));
            case SYMENGINE_SECH: return 2.0 / (Exp(u) + Exp(-u));
            case SYMENGINE_CSCH: return 2.0 / (Exp(u) - Exp(-u));
            case SYMENGINE_LOG: return Log(u);
            case SYMENGINE_ASIN: return odd_fn("ASIN", ::asin, u);
            case SYMENGINE_ACOS: {
                double r = c_pi() * verif_rational(1, 2) - odd_fn("ASIN", ::asin, u);
                if (verif_symbolic_exec() && !g_numeric)
                    verif_axiom(verif_uf1("ACOS", u) == r);
                return r;
            }
            case SYMENGINE_ATAN: return odd_fn("ATAN", ::atan, u);
            case SYMENGINE_ACOT: return odd_fn("ATAN", ::atan, 1.0 / u);
            case SYMENGINE_ASEC: return c_pi() * verif_rational(1, 2) - odd_fn("ASIN", ::asin, 1.0 / u);
            case SYMENGINE_ACSC: return odd_fn("ASIN", ::asin, 1.0 / u);
            case SYMENGINE_ASINH: return odd_fn("ASINH", ::asinh, u);
            case SYMENGINE_ACOSH: return ::acosh(u);
            case SYMENGINE_ATANH: return odd_fn("ATANH", ::atanh, u);
            case SYMENGINE_ACOTH: return ::atanh(1.0 / u);
            case SYMENGINE_ASECH: return ::acosh(1.0 / u);
            case SYMENGINE_ACSCH: return ::asinh(1.0 / u);
            case SYMENGINE_ERF: return odd_fn("ERF", ::erf, u);
            case SYMENGINE_ERFC: return 1.0 - odd_fn("ERF", ::erf, u);
            case SYMENGINE_GAMMA: return ::tgamma(u);
            case SYMENGINE_LOGGAMMA: return ::lgamma(u);
            case SYMENGINE_ABS: return u < 0 ? -u : u;
            case SYMENGINE_SIGN: return u > 0 ? 1.0 : (u < 0 ? -1.0 : 0.0);
            case SYMENGINE_FLOOR: return std::floor(u);
            case SYMENGINE_CEILING: return std::ceil(u);
            case SYMENGINE_CONJUGATE: return u;
            default: break;
        }
    }
    if (b.get_type_code() == SYMENGINE_ATAN2 && a.size() == 2)
        return ::atan2(ev(*a[0], env), ev(*a[1], env));
    if ((b.get_type_code() == SYMENGINE_MAX || b.get_type_code() == SYMENGINE_MIN) && !a.empty()) {
        double m = ev(*a[0], env);
        for (size_t i = 1; i < a.size(); i++) {
            double v = ev(*a[i], env);
            if (b.get_type_code() == SYMENGINE_MAX ? v > m : v < m)
                m = v;
        }
        return m;
    }
    throw Unsupported{"node type " + type_code_name(b.get_type_code())};
}

// standard environment: x, y real symbols (any value), p, q positive symbols given through their 12th roots
inline Env std_env()
{
    Env e;
    e.val["x"] = verif_real("x");
    e.val["y"] = verif_real("y");
    double rp = verif_real("root12_p"), rq = verif_real("root12_q");
    verif_assume(rp > 0);
    verif_assume(rq > 0);
    e.root12["p"] = rp;
    e.root12["q"] = rq;
    e.val["p"] = ipow(rp, 12);
    e.val["q"] = ipow(rq, 12);
    return e;
}
} // namespace ve
