// vmono.h — oracle domain D3 (multiplicative part): the exact value of a product of rational powers of positive quantities,
//   value = sign * prod_i prime_i^(e_i/12) * p^(a/12) * q^(b/12) * x^(c/12)       (p, q positive symbols; |x| for even powers)
// kept as integer exponent vectors in units of 1/12.  All arithmetic is exact integer arithmetic; the representation is unique
// (fundamental theorem of arithmetic), so two expressions have the same value for ALL positive p, q iff their vectors agree.
#pragma once
#include "vsym.h"
#include <map>

namespace vm
{
using namespace SymEngine;
struct Unsupported {
    std::string what;
};
struct Mono {
    int sign = 1;                 // +1 / -1 (0 = the value zero)
    std::map<long, long> pr;      // prime -> exponent * 12
    std::map<std::string, long> sy; // symbol -> exponent * 12
    bool operator==(const Mono &o) const
    {
        if (sign == 0 || o.sign == 0)
            return sign == o.sign;
        return sign == o.sign && pr == o.pr && sy == o.sy;
    }
    void clean()
    {
        for (auto it = pr.begin(); it != pr.end();)
            it = it->second == 0 ? pr.erase(it) : std::next(it);
        for (auto it = sy.begin(); it != sy.end();)
            it = it->second == 0 ? sy.erase(it) : std::next(it);
    }
};
inline Mono of_long(long n)
{
    Mono m;
    if (n == 0) {
        m.sign = 0;
        return m;
    }
    if (n < 0) {
        m.sign = -1;
        n = -n;
    }
    for (long d = 2; d * d <= n; d++)
        while (n % d == 0) {
            m.pr[d] += 12;
            n /= d;
        }
    if (n > 1)
        m.pr[n] += 12;
    return m;
}
inline Mono mul(const Mono &a, const Mono &b)
{
    Mono r;
    if (a.sign == 0 || b.sign == 0) {
        r.sign = 0;
        return r;
    }
    r = a;
    r.sign = a.sign * b.sign;
    for (auto &kv : b.pr)
        r.pr[kv.first] += kv.second;
    for (auto &kv : b.sy)
        r.sy[kv.first] += kv.second;
    r.clean();
    return r;
}
// a^(n/d); non-integer powers only of positive monomials (principal branch = positive real root)
inline Mono power(const Mono &a, long n, long d)
{
    Mono r;
    if (a.sign == 0) {
        if (n <= 0)
            throw Unsupported{"zero to a non-positive power"};
        r.sign = 0;
        return r;
    }
    if (d != 1 && a.sign < 0)
        throw Unsupported{"non-integer power of a negative quantity"};
    r.sign = (a.sign < 0 && (n % 2 != 0)) ? -1 : 1;
    for (auto &kv : a.pr) {
        if ((kv.second * n) % d != 0)
            throw Unsupported{"exponent not a multiple of 1/12"};
        r.pr[kv.first] = kv.second * n / d;
    }
    for (auto &kv : a.sy) {
        if ((kv.second * n) % d != 0)
            throw Unsupported{"exponent not a multiple of 1/12"};
        r.sy[kv.first] = kv.second * n / d;
    }
    r.clean();
    return r;
}
inline Mono of_number(const Number &n)
{
    if (is_a<Integer>(n))
        return of_long(mp_get_si(down_cast<const Integer &>(n).as_integer_class()));
    if (is_a<Rational>(n)) {
        const rational_class &q = down_cast<const Rational &>(n).as_rational_class();
        return mul(of_long(mp_get_si(get_num(q))), power(of_long(mp_get_si(get_den(q))), -1, 1));
    }
    throw Unsupported{"non-rational number"};
}
// meaning of a SymEngine product/power tree (no sums) as a monomial; symbols must be positive
inline Mono of_basic(const Basic &b)
{
    if (is_a_Number(b))
        return of_number(down_cast<const Number &>(b));
    if (is_a<Symbol>(b)) {
        Mono m;
        m.sy[down_cast<const Symbol &>(b).get_name()] = 12;
        return m;
    }
    if (is_a<Mul>(b)) {
        Mono m;
        for (auto &a : b.get_args())
            m = mul(m, of_basic(*a));
        return m;
    }
    if (is_a<Pow>(b)) {
        vec_basic a = b.get_args();
        Mono base = of_basic(*a[0]);
        if (is_a<Integer>(*a[1]))
            return power(base, mp_get_si(down_cast<const Integer &>(*a[1]).as_integer_class()), 1);
        if (is_a<Rational>(*a[1])) {
            const rational_class &q = down_cast<const Rational &>(*a[1]).as_rational_class();
            return power(base, mp_get_si(get_num(q)), mp_get_si(get_den(q)));
        }
    }
    throw Unsupported{"not a monomial: " + b.__str__()};
}
} // namespace vm
