#ifndef SYMENGINE_CONFIG_HPP
#define SYMENGINE_CONFIG_HPP

#define SYMENGINE_MAJOR_VERSION 0
#define SYMENGINE_MINOR_VERSION 14
#define SYMENGINE_PATCH_VERSION 0
#define SYMENGINE_VERSION "0.14.0"

/* Define if you want to enable ASSERT testing in SymEngine */
/* #undef WITH_SYMENGINE_ASSERT */

/* Define if you want to enable GMP support in SymEngine */
#define HAVE_SYMENGINE_GMP

/* Define if you want to enable SYMENGINE_RCP support in SymEngine */
#define WITH_SYMENGINE_RCP

/* Define if you want to enable TEUCHOS support in SymEngine */
/* #undef WITH_SYMENGINE_TEUCHOS */

/* Define if you want to enable SYMENGINE_THREAD_SAFE support in SymEngine */
/* #undef WITH_SYMENGINE_THREAD_SAFE */

/* Define if you want to enable ECM support in SymEngine */
/* #undef HAVE_SYMENGINE_ECM */

/* Define if you want to enable PRIMESIEVE support in SymEngine */
/* #undef HAVE_SYMENGINE_PRIMESIEVE */

/* Define if you want to use virtual TypeIDs in SymEngine */
/* #undef WITH_SYMENGINE_VIRTUAL_TYPEID */

/* Define if you want to enable Flint support in SymEngine */
/* #undef HAVE_SYMENGINE_FLINT */

/* Define if you want to enable ARB support in SymEngine */
/* #undef HAVE_SYMENGINE_ARB */

/* Define if you want to enable MPFR support in SymEngine */
/* #undef HAVE_SYMENGINE_MPFR */

/* Define if you want to enable Piranha support in SymEngine */
/* #undef HAVE_SYMENGINE_PIRANHA */

/* Define if you want to enable BOOST support in SymEngine */
/* #undef HAVE_SYMENGINE_BOOST */

/* Define if you want to enable PTHREAD support in SymEngine */
/* #undef HAVE_SYMENGINE_PTHREAD */

/* Define if you want to enable MPC support in SymEngine */
/* #undef HAVE_SYMENGINE_MPC */

/* Define if you want to enable LLVM support in SymEngine */
/* #undef HAVE_SYMENGINE_LLVM */

/* Define if the C compiler supports __FUNCTION__ but not __func__ */
/* #undef HAVE_C_FUNCTION_NOT_FUNC */

/* Define if the C++ compiler supports default constructors */
#define HAVE_DEFAULT_CONSTRUCTORS

/* Define if the C++ compiler supports noexcept specifier */
#define HAVE_SYMENGINE_NOEXCEPT

/* Define if the C++ compiler supports std::is_constructible */
#define HAVE_SYMENGINE_IS_CONSTRUCTIBLE

/* Define if the C++ compiler supports std::unordered_map<>::reserve() */
#define HAVE_SYMENGINE_RESERVE

/* Define if the C++ compiler has std::to_string */
#define HAVE_SYMENGINE_STD_TO_STRING

/* Define if the C++ compiler has RTTI */
#define HAVE_SYMENGINE_RTTI 1

#define SYMENGINE_GMPXX 0
#define SYMENGINE_PIRANHA 1
#define SYMENGINE_FLINT 2
#define SYMENGINE_GMP 3
#define SYMENGINE_BOOSTMP 4

#define SYMENGINE_INTEGER_CLASS SYMENGINE_GMP

#define SYMENGINE_SIZEOF_LONG_DOUBLE 16

#ifdef HAVE_SYMENGINE_NOEXCEPT
#  define SYMENGINE_NOEXCEPT noexcept
#else
#  define SYMENGINE_NOEXCEPT
#endif

#include <symengine/symengine_export.h>

#ifdef __CLING__
#include "symengine/symengine_config_cling.h"
#endif

#if defined(__CLANG_REPL__) && defined(__EMSCRIPTEN__)
#include "symengine/symengine_config_cling.h"
#endif

#endif
