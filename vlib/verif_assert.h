#pragma once
extern "C" void __verif_assert_fail(const char *file, int line, const char *cond) __attribute__((noreturn));
#define SYMENGINE_ASSERT(cond) { if (!(cond)) __verif_assert_fail(__FILE__, __LINE__, #cond); }
#define SYMENGINE_ASSERT_MSG(cond, msg) { if (!(cond)) __verif_assert_fail(__FILE__, __LINE__, #cond); }
