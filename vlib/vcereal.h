// vcereal.h — memory-backed twins of cereal's PortableBinary archives.  SymEngine's serialization code (serialize-cereal.h:
// save_basic / load_basic for every class, RCPBasicAwareOutputArchive / RCPBasicAwareInputArchive, the version header of
// Basic::dumps / Basic::loads) is generic in the archive type; these archives have the byte format of
// cereal::PortableBinary{Output,Input}Archive on a little-endian machine (one leading endianness byte, raw little-endian PODs, 64-bit
// size tags) but write to / read from a byte vector instead of a std::ostream / std::istream, whose libstdc++ internals the
// executor does not model.  Cross-compatibility with the real archives (each side reads what the other wrote) is checked in
// the native validation runs of C19.
#pragma once
#include <symengine/serialize-cereal.h>
#include <vector>
#include <string>

namespace cereal
{
class VOut : public OutputArchive<VOut, AllowEmptyClassElision>
{
public:
    static std::vector<char> &buf()
    {
        static std::vector<char> b;
        return b;
    }
    VOut(std::ostream &) : OutputArchive<VOut, AllowEmptyClassElision>(this)
    {
        this->operator()(std::uint8_t(1)); // "is little endian"
    }
    template <std::streamsize DataSize>
    inline void saveBinary(const void *data, std::streamsize size)
    {
        const char *p = reinterpret_cast<const char *>(data);
        buf().insert(buf().end(), p, p + size);
    }
};
class VIn : public InputArchive<VIn, AllowEmptyClassElision>
{
public:
    static std::vector<char> &buf()
    {
        static std::vector<char> b;
        return b;
    }
    static size_t &pos()
    {
        static size_t p;
        return p;
    }
    VIn(std::istream &) : InputArchive<VIn, AllowEmptyClassElision>(this), itsConvertEndianness(false)
    {
        std::uint8_t streamLittleEndian;
        this->operator()(streamLittleEndian);
        itsConvertEndianness = 1 ^ streamLittleEndian;
    }
    template <std::streamsize DataSize>
    inline void loadBinary(void *const data, std::streamsize size)
    {
        size_t avail = buf().size() - pos();
        if (size < 0 || (size_t)size > avail)
            throw Exception("Failed to read " + std::to_string(size) + " bytes from input stream! Read " + std::to_string(avail));
        char *d = reinterpret_cast<char *>(data);
        for (std::streamsize i = 0; i < size; i++)
            d[i] = buf()[pos() + i];
        pos() += size;
        if (itsConvertEndianness) {
            std::uint8_t *ptr = reinterpret_cast<std::uint8_t *>(data);
            for (std::streamsize i = 0; i < size; i += DataSize)
                portable_binary_detail::swap_bytes<DataSize>(ptr + i);
        }
    }

private:
    uint8_t itsConvertEndianness;
};
template <class T>
inline typename std::enable_if<std::is_arithmetic<T>::value, void>::type CEREAL_SAVE_FUNCTION_NAME(VOut &ar, T const &t)
{
    ar.template saveBinary<sizeof(T)>(std::addressof(t), sizeof(t));
}
template <class T>
inline typename std::enable_if<std::is_arithmetic<T>::value, void>::type CEREAL_LOAD_FUNCTION_NAME(VIn &ar, T &t)
{
    ar.template loadBinary<sizeof(T)>(std::addressof(t), sizeof(t));
}
template <class Archive, class T>
inline CEREAL_ARCHIVE_RESTRICT(VIn, VOut) CEREAL_SERIALIZE_FUNCTION_NAME(Archive &ar, NameValuePair<T> &t)
{
    ar(t.value);
}
template <class Archive, class T>
inline CEREAL_ARCHIVE_RESTRICT(VIn, VOut) CEREAL_SERIALIZE_FUNCTION_NAME(Archive &ar, SizeTag<T> &t)
{
    ar(t.size);
}
template <class T>
inline void CEREAL_SAVE_FUNCTION_NAME(VOut &ar, BinaryData<T> const &bd)
{
    typedef typename std::remove_pointer<T>::type TT;
    ar.template saveBinary<sizeof(TT)>(bd.data, static_cast<std::streamsize>(bd.size));
}
template <class T>
inline void CEREAL_LOAD_FUNCTION_NAME(VIn &ar, BinaryData<T> &bd)
{
    typedef typename std::remove_pointer<T>::type TT;
    ar.template loadBinary<sizeof(TT)>(bd.data, static_cast<std::streamsize>(bd.size));
}
} // namespace cereal
CEREAL_SETUP_ARCHIVE_TRAITS(cereal::VIn, cereal::VOut)

namespace vser
{
using namespace SymEngine;
// Basic::dumps / Basic::loads with the memory-backed archives (same statements as in basic.cpp)
inline std::vector<char> dumps(const RCP<const Basic> &e)
{
    cereal::VOut::buf().clear();
    static char dummy[512];
    unsigned short major = SYMENGINE_MAJOR_VERSION;
    unsigned short minor = SYMENGINE_MINOR_VERSION;
    RCPBasicAwareOutputArchive<cereal::VOut>{*reinterpret_cast<std::ostream *>(dummy)}(major, minor, e);
    return cereal::VOut::buf();
}
inline RCP<const Basic> loads(const std::vector<char> &bytes)
{
    cereal::VIn::buf() = bytes;
    cereal::VIn::pos() = 0;
    static char dummy[512];
    unsigned short major, minor;
    RCP<const Basic> obj;
    RCPBasicAwareInputArchive<cereal::VIn> iarchive{*reinterpret_cast<std::istream *>(dummy)};
    iarchive(major, minor);
    if (major != SYMENGINE_MAJOR_VERSION or minor != SYMENGINE_MINOR_VERSION)
        throw SerializationError("version mismatch");
    iarchive(obj);
    return obj;
}
} // namespace vser
