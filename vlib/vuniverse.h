// vuniverse.h — a small universe of expressions of every kind with symbolic numeric leaves (bv-mode integers, any-bit doubles)
#pragma once
#include "vsym.h"
#include <symengine/sets.h>
#include <symengine/logic.h>
#include <symengine/polys/uintpoly.h>
#include <symengine/polys/uratpoly.h>
#include <symengine/polys/uexprpoly.h>
#include <symengine/polys/msymenginepoly.h>
#include <symengine/matrices/immutable_dense_matrix.h>
#include <symengine/matrices/diagonal_matrix.h>

namespace vu
{
using namespace SymEngine;
using namespace vs;

enum { T_INT = 0, T_RAT, T_CPLX, T_DBL, T_CDBL, T_INF, T_NAN, T_SYM, T_MUL, T_ADD, T_ADD2, T_POW, T_POWQ, T_SIN, T_FSET, T_IVAL, T_REL, T_UINT, T_MINT, T_MINT0, T_MAT, T_URAT, T_IVALINF, T_ADDK, T_MULK, T_COUNT };
static const char *const tnames[] = {"Integer", "Rational", "Complex", "RealDouble", "ComplexDouble", "Infty", "NaN", "Symbol", "Mul", "Add", "Add(reversed)", "Pow", "Pow(rational)", "Sin", "FiniteSet", "Interval", "Lt", "UIntPoly", "MIntPoly{x,y}", "MIntPoly(constant, symbolic varset)", "ImmutableDenseMatrix", "URatPoly", "Interval(infinite end)", "Add(x + number of any kind)", "Mul(number of any kind * x)"};

// numeric slot bound
static const long B = 3;

inline RCP<const Basic> build(int t, const std::string &tag)
{
    RCP<const Basic> x = symbol("x"), y = symbol("y");
    if (t == T_CPLX && !verif_param("gauss_rat", 0)) {
        // Gaussian integers (the thorough tier uses unnormalised Gaussian rationals: gcd forks make pairs of them expensive)
        RCP<const Integer> re = sym_integer(nm(tag, "re"), -B, B, true), im = sym_integer(nm(tag, "im"), -B, B, true);
        return Complex::from_two_nums(*re, *im);
    }
    if (t <= T_NAN)
        return sym_number(t, tag, B, 3, true);
    switch (t) {
        case T_SYM:
            return verif_choice(nm(tag, "which").c_str(), 2) ? y : x;
        case T_MUL:
            return mul(sym_integer(nm(tag, "c"), -B, B, true), mul(x, y));
        case T_ADD:
            return add(mul(sym_integer(nm(tag, "a"), -B, B, true), x), mul(sym_integer(nm(tag, "b"), -B, B, true), y));
        case T_ADD2: // same value as T_ADD built in the other order, with a numeric term
            return add(sym_integer(nm(tag, "k"), -B, B, true), add(mul(sym_integer(nm(tag, "b"), -B, B, true), y), mul(sym_integer(nm(tag, "a"), -B, B, true), x)));
        case T_POW:
            return pow(x, sym_integer(nm(tag, "e"), -B, B, true));
        case T_POWQ:
            return pow(x, sym_rational(tag + "e", B, 3, true));
        case T_SIN:
            return sin(mul(sym_integer(nm(tag, "c"), -B, B, true), x));
        case T_FSET:
            return finiteset({sym_integer(nm(tag, "p"), -B, B, true), sym_integer(nm(tag, "q"), -B, B, true)});
        case T_IVAL: {
            RCP<const Integer> lo = sym_integer(nm(tag, "lo"), -B, B, true), hi = sym_integer(nm(tag, "hi"), -B, B, true);
            verif_assume(mp_get_si(lo->as_integer_class()) < mp_get_si(hi->as_integer_class()));
            return interval(lo, hi, verif_choice(nm(tag, "lopen").c_str(), 2), verif_choice(nm(tag, "ropen").c_str(), 2));
        }
        case T_REL:
            return Lt(x, sym_integer(nm(tag, "c"), -B, B, true));
        case T_UINT:
            return UIntPoly::from_vec(x, {sym_integer(nm(tag, "c0"), -B, B, true)->as_integer_class(), sym_integer(nm(tag, "c1"), -B, B, true)->as_integer_class()});
        case T_URAT:
            return URatPoly::from_vec(x, {rational_class(sym_integer(nm(tag, "c0"), -B, B, true)->as_integer_class()), rational_class(sym_integer(nm(tag, "c1"), -B, B, true)->as_integer_class())});
        case T_MINT: {
            umap_uvec_mpz d;
            d[{1, 0}] = sym_integer(nm(tag, "c10"), -B, B, true)->as_integer_class();
            d[{0, 1}] = sym_integer(nm(tag, "c01"), -B, B, true)->as_integer_class();
            return MIntPoly::from_dict({x, y}, std::move(d));
        }
        case T_MINT0: { // a constant polynomial over a symbolic choice of variable set
            uint64_t vsn = verif_choice(nm(tag, "vars").c_str(), 3);
            vec_basic vars;
            if (vsn >= 1)
                vars.push_back(x);
            if (vsn >= 2)
                vars.push_back(y);
            umap_uvec_mpz d;
            vec_uint z(vars.size(), 0);
            d[z] = sym_integer(nm(tag, "c"), -B, B, true)->as_integer_class();
            return MIntPoly::from_dict(vars, std::move(d));
        }
        case T_IVALINF: { // one infinite end, both open/closed flags symbolic choices
            RCP<const Integer> e = sym_integer(nm(tag, "e"), -B, B, true);
            bool left = verif_choice(nm(tag, "infleft").c_str(), 2), lo = verif_choice(nm(tag, "lopen").c_str(), 2), ro = verif_choice(nm(tag, "ropen").c_str(), 2);
            return left ? interval(NegInf, e, lo, ro) : interval(e, Inf, lo, ro);
        }
        case T_ADDK: { // x + k with k of any finite number kind (same value in different kinds is possible)
            int kk = (int)verif_choice(nm(tag, "kk").c_str(), 4);
            RCP<const Number> k = kk == 3 ? (RCP<const Number>)real_double((double)(long)verif_choice(nm(tag, "kd").c_str(), 3)) : sym_number(kk, tag + "k", 2, 2, true);
            return add(x, k);
        }
        case T_MULK: {
            int kk = (int)verif_choice(nm(tag, "kk").c_str(), 4);
            RCP<const Number> k = kk == 3 ? (RCP<const Number>)real_double((double)(long)verif_choice(nm(tag, "kd").c_str(), 3)) : sym_number(kk, tag + "k", 2, 2, true);
            return mul(k, x);
        }
        case T_MAT:
            return immutable_dense_matrix(1, 2, {sym_integer(nm(tag, "m0"), -B, B, true), sym_integer(nm(tag, "m1"), -B, B, true)});
    }
    return x;
}
} // namespace vu
