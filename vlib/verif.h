// verif.h — intrinsics understood by symx (engine natives) and by the native replay backend (vlib/native_backend.cpp)
#pragma once
#include <stdint.h>
#include <gmp.h>
extern "C" {
int64_t verif_i64(const char *name, int64_t lo, int64_t hi); // symbolic 64-bit integer in [lo,hi]
uint64_t verif_choice(const char *name, uint64_t n);         // concrete value in [0,n): one path per value
int64_t verif_param(const char *name, int64_t dflt);         // concrete harness parameter (tier bounds), --param name=v
double verif_double(const char *name);                       // any of the 2^64 bit patterns (IEEE mode)
double verif_real(const char *name);                         // real-mode double: a z3 Real (floating-point code runs over R)
void verif_mode_real(void);
double verif_rational(int64_t p, int64_t q);                   // exact rational constant p/q (real mode)
void verif_bytes(void *buf, uint64_t n, const char *name);   // n fully symbolic bytes
void verif_mpz(mpz_ptr z, const char *name, int64_t lo, int64_t hi);    // symbolic integer, Int mode (exact Z)
void verif_mpz_bv(mpz_ptr z, const char *name, int64_t lo, int64_t hi); // symbolic integer, bit-vector mode
double verif_mpz_real(mpz_srcptr z);                         // exact value of an mpz as a real-mode double
int verif_mpz_is_symbolic(mpz_srcptr z);
void verif_assume(bool c);
void verif_axiom(bool c);                                   // valid fact about an uninterpreted symbol; no feasibility query
void verif_assert(bool c, const char *msg);
void verif_assert_req(double a, double b, const char *msg);  // a == b over the reals (both sides real-mode or concrete)
void verif_assert_mpz_eq(mpz_srcptr a, mpz_srcptr b, const char *msg);
int verif_known(const char *key, bool cond); // enter a known-finding region when key is listed and cond holds
void verif_known_end(void);
void verif_observe_i64(const char *tag, int64_t v);
void verif_observe_mpz(const char *tag, mpz_srcptr v);
int64_t verif_concretize(int64_t v);                          // one path per feasible value; returns the concrete value
void verif_note(const char *msg);
int verif_is_symbolic(int64_t v);
int verif_symbolic_exec(void); // 1 under symx, 0 in the native replay build
double verif_uf1(const char *name, double x);
double verif_uf2(const char *name, double x, double y);
void verif_leakcheck(int on);
}
