// vsym.h — symbolic constructors for SymEngine objects (numeric leaves become solver variables)
#pragma once
#include "verif.h"
#include <string>
#include <symengine/basic.h>
#include <symengine/add.h>
#include <symengine/mul.h>
#include <symengine/pow.h>
#include <symengine/integer.h>
#include <symengine/rational.h>
#include <symengine/complex.h>
#include <symengine/real_double.h>
#include <symengine/complex_double.h>
#include <symengine/infinity.h>
#include <symengine/nan.h>
#include <symengine/constants.h>
#include <symengine/symbol.h>
#include <symengine/functions.h>
#include <symengine/symengine_exception.h>

// every harness ends with VERIF_END(): the vacuity twin (--param witness=1) must be able to fail here
#define VERIF_END()                                                                                \
    do {                                                                                           \
        if (verif_param("witness", 0))                                                             \
            verif_assert(false, "witness");                                                        \
    } while (0)

namespace vs
{
using namespace SymEngine;

inline std::string nm(const std::string &tag, const char *field)
{
    return tag + "_" + field;
}
inline RCP<const Integer> sym_integer(const std::string &name, long lo, long hi, bool bv = false)
{
    integer_class z;
    if (bv)
        verif_mpz_bv(get_mpz_t(z), name.c_str(), lo, hi);
    else
        verif_mpz(get_mpz_t(z), name.c_str(), lo, hi);
    return make_rcp<const Integer>(std::move(z));
}
// n/d with d != 0, not pre-normalised: goes through the real Rational::from_two_ints
inline RCP<const Number> sym_rational(const std::string &tag, long nmax, long dmax, bool bv = false)
{
    RCP<const Integer> n = sym_integer(nm(tag, "n"), -nmax, nmax, bv), d = sym_integer(nm(tag, "d"), 1, dmax, bv);
    return Rational::from_two_ints(*n, *d);
}
inline RCP<const Number> sym_gaussian(const std::string &tag, long nmax, long dmax, bool bv = false)
{
    RCP<const Number> re = sym_rational(tag + "re", nmax, dmax, bv), im = sym_rational(tag + "im", nmax, dmax, bv);
    return Complex::from_two_nums(*re, *im);
}
enum Kind { K_INT = 0, K_RAT, K_CPLX, K_DBL, K_CDBL, K_INF, K_NAN, K_COUNT };
inline RCP<const Number> sym_number(int kind, const std::string &tag, long nmax, long dmax, bool bv)
{
    switch (kind) {
        case K_INT:
            return sym_integer(nm(tag, "i"), -nmax, nmax, bv);
        case K_RAT:
            return sym_rational(tag, nmax, dmax, bv);
        case K_CPLX:
            return sym_gaussian(tag, nmax, dmax, bv);
        case K_DBL:
            return real_double(verif_double(nm(tag, "f").c_str()));
        case K_CDBL:
            return complex_double(std::complex<double>(verif_double(nm(tag, "fre").c_str()), verif_double(nm(tag, "fim").c_str())));
        case K_INF: {
            long dir = verif_i64(nm(tag, "dir").c_str(), -1, 1);
            if (dir < 0)
                return NegInf;
            if (dir > 0)
                return Inf;
            return ComplexInf;
        }
        default:
            return Nan;
    }
}
inline bool is_nan_double(const Basic &b)
{
    if (is_a<RealDouble>(b)) {
        double d = down_cast<const RealDouble &>(b).i;
        return d != d;
    }
    if (is_a<ComplexDouble>(b)) {
        std::complex<double> c = down_cast<const ComplexDouble &>(b).i;
        return c.real() != c.real() || c.imag() != c.imag();
    }
    return false;
}
} // namespace vs
