// vrecipe.h — expression recipes: small operator trees, enumerated exhaustively up to a bound (one path per tree, chosen with
// verif_choice), built through the SymEngine API on one side and given their mathematical meaning (value and derivative, oracle
// domain D2) on the other.
#pragma once
#include "veval.h"
#include <vector>

namespace vr
{
using namespace SymEngine;

enum Op { L_X, L_Y, L_P, L_NUM, L_SYMNUM, L_PI, L_E, O_ADD, O_SUB, O_MUL, O_DIV, O_NEG, O_POWI, O_POWQ, O_SIN, O_COS, O_TAN, O_EXP, O_LOG, O_SINH, O_COSH, O_ATAN, O_SQRT, O_ASIN, O_ERF, O_TANH, O_COT };
struct Node {
    int op;
    int a = -1, b = -1;
    long p = 0, q = 1;       // numeric leaf p/q, or exponent p/q
    RCP<const Basic> symnum; // symbolic-coefficient leaf (an Integer with a solver variable inside)
};
struct Recipe {
    std::vector<Node> n;
    int root = -1;
};
struct Gen {
    std::vector<int> leaves, unary, binary; // allowed operators
    std::vector<std::pair<long, long>> nums; // numeric leaf table
    std::vector<long> ipows;                 // integer exponents for O_POWI
    std::vector<std::pair<long, long>> qpows; // rational exponents for O_POWQ (base must be positive: only applied to L_P leaves)
    long symB = 3;                           // range of symbolic integer leaves
    int counter = 0;
    int leaf(Recipe &r, const std::string &tag)
    {
        Node nd;
        nd.op = leaves[verif_choice((tag + "_leaf").c_str(), leaves.size())];
        if (nd.op == L_NUM) {
            auto pq = nums[verif_choice((tag + "_num").c_str(), nums.size())];
            nd.p = pq.first;
            nd.q = pq.second;
        } else if (nd.op == L_SYMNUM)
            nd.symnum = vs::sym_integer(tag + "_c" + std::to_string(counter++), -symB, symB);
        r.n.push_back(nd);
        return (int)r.n.size() - 1;
    }
    // depth 0: leaf; depth d: leaf, unary(depth d-1) or binary(depth d-1, leaf)
    int gen(Recipe &r, int depth, const std::string &tag)
    {
        if (depth == 0)
            return leaf(r, tag);
        unsigned nk = 1 + (unary.empty() ? 0 : 1) + (binary.empty() ? 0 : 1);
        unsigned k = (unsigned)verif_choice((tag + "_kind").c_str(), nk);
        if (k == 0)
            return leaf(r, tag);
        if (k == 1 && !unary.empty()) {
            Node nd;
            nd.op = unary[verif_choice((tag + "_un").c_str(), unary.size())];
            if (nd.op == O_POWI)
                nd.p = ipows[verif_choice((tag + "_ip").c_str(), ipows.size())];
            if (nd.op == O_POWQ) {
                auto pq = qpows[verif_choice((tag + "_qp").c_str(), qpows.size())];
                nd.p = pq.first;
                nd.q = pq.second;
                // rational powers are taken of the positive symbol only (principal branch is then unambiguous)
                Node lf;
                lf.op = L_P;
                r.n.push_back(lf);
                nd.a = (int)r.n.size() - 1;
            } else
                nd.a = gen(r, depth - 1, tag + "u");
            r.n.push_back(nd);
            return (int)r.n.size() - 1;
        }
        Node nd;
        nd.op = binary[verif_choice((tag + "_bin").c_str(), binary.size())];
        nd.a = gen(r, depth - 1, tag + "l");
        nd.b = gen(r, depth > 1 ? 1 : 0, tag + "r");
        r.n.push_back(nd);
        return (int)r.n.size() - 1;
    }
};

inline RCP<const Basic> build(const Recipe &r, int i)
{
    const Node &nd = r.n[i];
    switch (nd.op) {
        case L_X: return symbol("x");
        case L_Y: return symbol("y");
        case L_P: return symbol("p");
        case L_NUM: return nd.q == 1 ? (RCP<const Basic>)integer(nd.p) : (RCP<const Basic>)Rational::from_two_ints(nd.p, nd.q);
        case L_SYMNUM: return nd.symnum;
        case L_PI: return pi;
        case L_E: return E;
        case O_ADD: return add(build(r, nd.a), build(r, nd.b));
        case O_SUB: return sub(build(r, nd.a), build(r, nd.b));
        case O_MUL: return mul(build(r, nd.a), build(r, nd.b));
        case O_DIV: return div(build(r, nd.a), build(r, nd.b));
        case O_NEG: return neg(build(r, nd.a));
        case O_POWI: return pow(build(r, nd.a), integer(nd.p));
        case O_POWQ: return pow(build(r, nd.a), Rational::from_two_ints(nd.p, nd.q));
        case O_SIN: return sin(build(r, nd.a));
        case O_COS: return cos(build(r, nd.a));
        case O_TAN: return tan(build(r, nd.a));
        case O_COT: return cot(build(r, nd.a));
        case O_EXP: return exp(build(r, nd.a));
        case O_LOG: return log(build(r, nd.a));
        case O_SINH: return sinh(build(r, nd.a));
        case O_COSH: return cosh(build(r, nd.a));
        case O_TANH: return tanh(build(r, nd.a));
        case O_ATAN: return atan(build(r, nd.a));
        case O_ASIN: return asin(build(r, nd.a));
        case O_ERF: return erf(build(r, nd.a));
        case O_SQRT: return sqrt(build(r, nd.a));
    }
    return zero;
}
// build, or leave the path when a constructor refuses the recipe (DomainError / NotImplementedError for e.g. a pole): such a
// recipe does not denote an expression, so nothing is claimed about it
inline RCP<const Basic> build_or_skip(const Recipe &r, int i)
{
    try {
        return build(r, i);
    } catch (SymEngineException &) {
        verif_assume(false);
    }
    return zero;
}
// dual number: value and derivative with respect to one symbol
struct Dual {
    double v, d;
};
// meaning of the recipe by the textbook rules; `wrt` selects the differentiation variable ("x", "y" or "p")
inline Dual eval(const Recipe &r, int i, ve::Env &env, const std::string &wrt)
{
    const Node &nd = r.n[i];
    auto sym = [&](const char *name) { return Dual{env.val[name], wrt == name ? 1.0 : 0.0}; };
    switch (nd.op) {
        case L_X: return sym("x");
        case L_Y: return sym("y");
        case L_P: return sym("p");
        case L_NUM: return Dual{verif_rational(nd.p, nd.q), 0.0};
        case L_SYMNUM: return Dual{ve::num_value(down_cast<const Number &>(*nd.symnum)), 0.0};
        case L_PI: return Dual{ve::c_pi(), 0.0};
        case L_E: return Dual{ve::c_e(), 0.0};
        default: break;
    }
    Dual a = eval(r, nd.a, env, wrt);
    if (nd.b >= 0) {
        Dual b = eval(r, nd.b, env, wrt);
        switch (nd.op) {
            case O_ADD: return Dual{a.v + b.v, a.d + b.d};
            case O_SUB: return Dual{a.v - b.v, a.d - b.d};
            case O_MUL: return Dual{a.v * b.v, a.d * b.v + a.v * b.d};
            case O_DIV: return Dual{a.v / b.v, (a.d * b.v - a.v * b.d) / (b.v * b.v)};
        }
    }
    switch (nd.op) {
        case O_NEG: return Dual{-a.v, -a.d};
        case O_POWI: {
            if (nd.p == 0)
                return Dual{1.0, 0.0};
            return Dual{ve::ipow(a.v, nd.p), verif_rational(nd.p, 1) * ve::ipow(a.v, nd.p - 1) * a.d};
        }
        case O_POWQ: { // base is the positive symbol p = r^12
            double rt = env.root12["p"];
            long e12 = nd.p * (12 / nd.q);
            double v = ve::ipow(rt, e12);
            // d/dp p^(a) = a p^(a-1) = a * v / p
            return Dual{v, verif_rational(nd.p, nd.q) * v / a.v * a.d};
        }
        case O_SQRT: {
            // numeric radicand: degree-2 encoding (sqrt(2/3) is printed as sqrt(6)/3); otherwise through the 12th root shared
            // with the rational powers of the positive symbol
            double v = r.n[nd.a].op == L_NUM ? ve::sqrt_of(a.v) : ve::ipow(ve::root12_of(a.v), 6);
            return Dual{v, a.d / (2.0 * v)};
        }
        case O_SIN: return Dual{ve::Sin(a.v), ve::Cos(a.v) * a.d};
        case O_COS: return Dual{ve::Cos(a.v), -ve::Sin(a.v) * a.d};
        case O_TAN: {
            double t = ve::Sin(a.v) / ve::Cos(a.v);
            return Dual{t, (1.0 + t * t) * a.d};
        }
        case O_COT: {
            double t = ve::Cos(a.v) / ve::Sin(a.v);
            return Dual{t, -(1.0 + t * t) * a.d};
        }
        case O_EXP: {
            double e = ve::Exp(a.v);
            return Dual{e, e * a.d};
        }
        case O_LOG:
            verif_assume(a.v > 0); // real logarithm: positive arguments only
            if (r.n[nd.a].op == L_NUM && r.n[nd.a].q != 1 && verif_symbolic_exec() && !ve::g_numeric) // log(p/q) = log p - log q
                verif_axiom(ve::Log(a.v) == ve::Log(verif_rational(r.n[nd.a].p, 1)) - ve::Log(verif_rational(r.n[nd.a].q, 1)));
            return Dual{ve::Log(a.v), a.d / a.v};
        case O_SINH: {
            double e = ve::Exp(a.v), m = ve::Exp(-a.v);
            return Dual{(e - m) / 2.0, (e + m) / 2.0 * a.d};
        }
        case O_COSH: {
            double e = ve::Exp(a.v), m = ve::Exp(-a.v);
            return Dual{(e + m) / 2.0, (e - m) / 2.0 * a.d};
        }
        case O_TANH: {
            double e = ve::Exp(a.v), m = ve::Exp(-a.v);
            double t = (e - m) / (e + m);
            return Dual{t, (1.0 - t * t) * a.d};
        }
        case O_ATAN: return Dual{ve::odd_fn("ATAN", ::atan, a.v), a.d / (1.0 + a.v * a.v)};
        case O_ASIN: {
            double s = ve::root12_of(1.0 - a.v * a.v);
            return Dual{ve::odd_fn("ASIN", ::asin, a.v), a.d / ve::ipow(s, 6)};
        }
        case O_ERF: {
            // d/du erf(u) = 2/sqrt(pi) * exp(-u^2)
            double spi = ve::ipow(ve::root12_of(ve::c_pi()), 6);
            return Dual{ve::odd_fn("ERF", ::erf, a.v), 2.0 / spi * ve::Exp(-(a.v * a.v)) * a.d};
        }
    }
    return Dual{0.0, 0.0};
}
} // namespace vr
