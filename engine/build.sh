#!/bin/sh
# builds engine/symx from symx.cpp (+ natives_*.inc) against LLVM-14 and the z3 5.1 library shipped in the tooling venv
set -e
cd "$(dirname "$0")"
Z3I=/opt/veriftools/pyvenv/lib/python3.11/site-packages/z3
clang++-14 -O2 -g -std=c++17 symx.cpp -o symx.new -I/usr/lib/llvm-14/include -D_GNU_SOURCE -D__STDC_CONSTANT_MACROS -D__STDC_FORMAT_MACROS -D__STDC_LIMIT_MACROS -I$Z3I/include -L$Z3I/lib -Wl,-rpath,$Z3I/lib -L/usr/lib/llvm-14/lib -lLLVM-14 -lz3 -lgmpxx -lgmp -w
mv -f symx.new symx
