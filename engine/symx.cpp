// symx spike: bounded symbolic executor for LLVM IR (feasibility probe)
#include <llvm/IR/Module.h>
#include <llvm/IR/LLVMContext.h>
#include <llvm/IR/Instructions.h>
#include <llvm/IR/IntrinsicInst.h>
#include <llvm/IR/Constants.h>
#include <llvm/IR/DataLayout.h>
#include <llvm/IR/GetElementPtrTypeIterator.h>
#include <llvm/IR/Operator.h>
#include <llvm/IRReader/IRReader.h>
#include <llvm/Support/SourceMgr.h>
#include <llvm/Support/raw_ostream.h>
#include <llvm/Linker/Linker.h>
#include <z3++.h>
#include <gmpxx.h>
#include <cmath>
#include <chrono>
#include <deque>
#include <functional>
#include <iostream>
#include <map>
#include <memory>
#include <set>
#include <sstream>
#include <unordered_map>
#include <cxxabi.h>
#include <complex>
#include <poll.h>
#include <signal.h>
#include <sys/wait.h>
#include <unistd.h>

using namespace llvm;

// one z3 context per path: AST numbering (and with it term simplification) is then a function of the path alone, which makes
// re-execution from a decision prefix reproducible in any worker process
static z3::context *g_ctx = new z3::context;
#define Z (*g_ctx)
static const DataLayout *DL;

static std::string demangle(const std::string &n)
{
    int st;
    char *d = abi::__cxa_demangle(n.c_str(), nullptr, nullptr, &st);
    if (st == 0 && d) {
        std::string r(d);
        free(d);
        return r;
    }
    return n;
}

struct PathEnd {
    std::string kind; // ok, throw, violation, inconclusive, infeasible, known
    std::string msg;
};

//------------------------------------------------------------------ values
struct Val {
    enum K : uint8_t { UNDEF, CONC, SYM, AGG } k = UNDEF;
    APInt c;
    z3::expr e{Z}; // BV(width) / Bool (width 1) / FP
    std::vector<Val> agg;
    static Val conc(const APInt &a)
    {
        Val v;
        v.k = CONC;
        v.c = a;
        return v;
    }
    static Val conc(unsigned w, uint64_t x, bool sgn = false)
    {
        return conc(APInt(w, x, sgn));
    }
    static Val sym(const z3::expr &e)
    {
        Val v;
        v.k = SYM;
        v.e = e;
        return v;
    }
    bool isC() const
    {
        return k == CONC;
    }
    bool isS() const
    {
        return k == SYM;
    }
    uint64_t u() const
    {
        return c.getZExtValue();
    }
};

static z3::expr bvval(const APInt &a)
{
    if (a.getBitWidth() <= 64)
        return Z.bv_val((uint64_t)a.getZExtValue(), a.getBitWidth());
    SmallString<64> s;
    a.toStringUnsigned(s);
    return Z.bv_val(s.c_str(), a.getBitWidth());
}
static z3::expr fpFromBV(const z3::expr &bv)
{
    unsigned w = bv.get_sort().bv_size();
    z3::sort s = (w == 64) ? Z.fpa_sort(11, 53) : Z.fpa_sort(8, 24);
    return z3::expr(Z, Z3_mk_fpa_to_fp_bv(Z, bv, s));
}
// bit-vector view of a value of given width
static z3::expr toBV(const Val &v, unsigned w)
{
    if (v.isC())
        return bvval(v.c.zextOrTrunc(w));
    if (v.k == Val::UNDEF)
        return Z.bv_val(0, w);
    z3::sort s = v.e.get_sort();
    if (s.is_bool())
        return z3::ite(v.e, Z.bv_val(1, w), Z.bv_val(0, w));
    if (s.is_fpa())
        return z3::expr(Z, Z3_mk_fpa_to_ieee_bv(Z, v.e));
    if (s.is_real() || s.is_int())
        throw PathEnd{"inconclusive", "bit-level use of a real-mode value"};
    return v.e;
}
static z3::expr toBool(const Val &v)
{
    if (v.isC())
        return Z.bool_val(v.c.getBoolValue());
    if (v.e.get_sort().is_bool())
        return v.e;
    return v.e == Z.bv_val(1, 1);
}
static z3::expr toFP(const Val &v, unsigned w)
{
    if (v.isS() && v.e.get_sort().is_fpa())
        return v.e;
    return fpFromBV(toBV(v, w));
}
static bool isRealV(const Val &v)
{
    return v.isS() && v.e.get_sort().is_real();
}
static bool g_arithUsed = false, g_realUsed = false, g_fpUsed = false; // theories used on this path (selects the fallback solver)
static bool g_realMode = false; // harness selected the real abstraction of floating point (D6)
static z3::expr realOfDouble(double d)
{
    if (std::isnan(d) || std::isinf(d))
        throw PathEnd{"inconclusive", "non-finite double in real mode"};
    mpq_class q(d);
    return Z.real_val(q.get_str().c_str());
}
static z3::expr toRealE(const Val &v, unsigned w)
{
    if (v.isS()) {
        if (v.e.get_sort().is_real())
            return v.e;
        if (v.e.get_sort().is_int())
            return z3::to_real(v.e);
        throw PathEnd{"inconclusive", "mixing ieee-symbolic and real-mode doubles"};
    }
    if (v.k == Val::UNDEF)
        return Z.real_val(0);
    if (w == 32) {
        uint32_t u = (uint32_t)v.c.getZExtValue();
        float f;
        memcpy(&f, &u, 4);
        return realOfDouble((double)f);
    }
    uint64_t u = v.c.getZExtValue();
    double d;
    memcpy(&d, &u, 8);
    return realOfDouble(d);
}
static Val simp(const z3::expr &e0)
{
    z3::expr e = e0.simplify();
    if (e.is_true())
        return Val::conc(1, 1);
    if (e.is_false())
        return Val::conc(1, 0);
    if (e.is_numeral() && e.get_sort().is_bv()) {
        unsigned w = e.get_sort().bv_size();
        if (w <= 64)
            return Val::conc(w, e.get_numeral_uint64());
        return Val::conc(APInt(w, e.get_decimal_string(0), 10));
    }
    return Val::sym(e);
}

//------------------------------------------------------------------ memory
struct MemObj {
    uint64_t base = 0, size = 0;
    std::vector<uint8_t> data;
    std::map<uint64_t, z3::expr> symb;    // per byte BV8
    struct Cell { z3::expr e; uint64_t n; };
    std::map<uint64_t, Cell> cells;       // whole-value symbolic cells (BV of 8*n bits)
    void explode(uint64_t off, uint64_t n) // turn cells overlapping [off,off+n) into bytes
    {
        if (cells.empty()) return;
        for (auto it = cells.begin(); it != cells.end();) {
            if (it->first < off + n && it->first + it->second.n > off) {
                if (!it->second.e.get_sort().is_bv())
                    throw PathEnd{"inconclusive", "partial access to a real-mode double in memory (cell at +" + std::to_string(it->first) + " size " + std::to_string(it->second.n) + ", access +" + std::to_string(off) + " len " + std::to_string(n) + " in " + name + ")"};
                for (uint64_t i = 0; i < it->second.n; i++)
                    symb.insert_or_assign(it->first + i, it->second.e.extract(8 * i + 7, 8 * i).simplify());
                it = cells.erase(it);
            } else ++it;
        }
    }
    std::map<uint64_t, z3::expr> intcell; // 8-byte cell holding Int
    bool freed = false, heap = false, stack = false;
    std::string name;
};
using ObjP = std::shared_ptr<MemObj>;

struct Engine;
using Native = std::function<Val(Engine &, std::vector<Val> &, const CallBase *)>;

struct Frame {
    Function *f;
    BasicBlock *bb = nullptr, *prev = nullptr;
    BasicBlock::iterator pc;
    std::unordered_map<const Value *, Val> regs;
    std::vector<uint64_t> allocas;
    const CallBase *site = nullptr; // call in caller awaiting result
};

struct Stats {
    uint64_t instrs = 0, paths = 0, queries = 0, forks = 0, slowQueries = 0, asserts = 0, sat = 0, unsat = 0, simpProved = 0;
    double solver_s = 0;
    std::set<std::string> funcs;
};

struct Engine {
    Module *M;
    std::map<uint64_t, ObjP> objs, snapshot;
    uint64_t nextGlobal = 0x10000000, nextStack = 0x40000000,
             nextHeap = 0x80000000;
    uint64_t snapHeap = 0;
    std::unordered_map<const GlobalValue *, uint64_t> gaddr;
    std::unordered_map<uint64_t, Function *> faddr;
    std::unordered_map<std::string, Native> natives;
    // hooks: defined library functions that are replaced by a model when the hook accepts the call (returns true)
    using Hook = std::function<bool(Engine &, std::vector<Val> &, const CallBase *, Val &)>;
    std::unordered_map<std::string, Hook> hooks;
    std::set<std::string> hooksUsed;
    std::vector<Frame> stack;
    // path state
    struct Dec { bool b; std::string val; uint32_t site = 0; bool forced = false; };
    std::vector<Dec> prefix, decisions;
    bool checkedReplay = false; // fallback after a replay divergence: every logged decision is validated by the solver
    uint64_t replayFallbacks = 0;
    std::deque<std::vector<Dec>> work;
    z3::solver *S = nullptr;
    std::vector<z3::expr> pc;
    struct Input { std::string name, kind; z3::expr e; };
    std::vector<Input> inputs;
    struct Obs { std::string tag; z3::expr e; };
    std::vector<Obs> observations;
    struct Viol { std::string msg; std::vector<std::pair<std::string, std::string>> model; std::vector<std::string> stack; bool modelOk; };
    std::vector<Viol> violations;
    std::map<uint64_t, std::pair<uint64_t, uint64_t>> exnDtor;
    std::vector<uint64_t> caught;
    std::set<uint64_t> rethrown;
    std::set<uint64_t> liveOSS;
    uint64_t fakeVT = 0, fakeVTss = 0, errnoAddr = 0;
    Stats st;
    uint64_t instrBudget = 20000000;
    uint64_t pathInstr = 0;
    // exception state
    bool unwinding = false;
    uint64_t exnObj = 0, exnType = 0;
    std::set<std::string> missing;
    bool trace = false;
    // per-path bookkeeping of the GMP model (reset for every path)
    struct ZRec { z3::expr size, mag, val; };
    std::map<uint64_t, ZRec> zrec;
    struct Bnd { z3::expr v; mpz_class lo, hi; };
    std::map<unsigned, Bnd> bounds; // ast id of Int const -> [lo,hi]
    std::map<unsigned, std::pair<z3::expr, z3::expr>> bridge; // Int term -> its bit-vector bridge
    std::map<unsigned, z3::expr> limbProven;                  // Int terms already shown to fit one limb on this path
    // harness parameters and known-finding keys
    std::map<std::string, int64_t> params;
    std::set<std::string> knownKeys;
    std::vector<std::string> knownHit; // keys whose excluded region produced a violation on this path
    std::string knownCtx;              // non-empty while executing inside a known-finding region
    std::vector<std::string> notes;
    uint64_t allocCap = 1ULL << 26;
    bool checkLeaks = false;
    uint64_t freshId = 0, randCalls = 0;
    std::map<std::string, z3::func_decl> ufs;
    z3::expr uf(const std::string &name, const std::vector<z3::expr> &args)
    {
        std::string key = name + "/" + std::to_string(args.size());
        auto it = ufs.find(key);
        if (it == ufs.end()) {
            z3::sort_vector dom(Z);
            for (size_t i = 0; i < args.size(); i++)
                dom.push_back(Z.real_sort());
            it = ufs.emplace(key, Z.function(name.c_str(), dom, Z.real_sort())).first;
            if (name == "EXP" && args.size() == 1) {
                // formula level: the double nearest to e stands for e (compilers fold exp(1.0) to that literal)
                z3::expr_vector one(Z);
                one.push_back(Z.real_val(1));
                addPC(it->second(one) == realOfDouble(M_E));
            }
        }
        z3::expr_vector av(Z);
        for (auto &a : args)
            av.push_back(a);
        return it->second(av);
    }
    uint64_t prunedSingular = 0;
    void pruneZero(const z3::expr &y)
    {
        z3::expr nz = (y != 0).simplify();
        if (nz.is_true())
            return;
        if (nz.is_false() || !feasible(nz))
            throw PathEnd{"infeasible", "real-mode division by zero (singular point pruned)"};
        addPC(nz);
        prunedSingular++;
    }
    // try to prove a == b over the reals by polynomial normalisation alone (no solver call)
    bool provedEqualBySimplifier(const z3::expr &a, const z3::expr &b)
    {
        z3::params p(Z);
        p.set("som", true);
        p.set("expand_power", true);
        p.set("hoist_mul", false);
        p.set("arith_lhs", true);
        p.set("sort_sums", true);
        p.set("max_degree", 64u);
        p.set("som_blowup", 100000u); // (the default of 10 stops the expansion of products of sums of more than a few terms)
        z3::expr d = (a - b).simplify(p);
        if (d.is_numeral()) {
            std::string n = d.get_decimal_string(0);
            return n == "0";
        }
        return false;
    }
    Val realSqrt(const z3::expr &x)
    {
        z3::expr s = uf("SQRT", {x});
        addPC(z3::implies(x >= 0, s * s == x && s >= 0));
        return Val::sym(s);
    }
    void resetPath()
    {
        g_arithUsed = g_realUsed = g_fpUsed = false;
        violations.clear();
        exnDtor.clear();
        caught.clear();
        rethrown.clear();
        liveOSS.clear();
        zrec.clear();
        bounds.clear();
        bridge.clear();
        limbProven.clear();
        knownHit.clear();
        knownCtx.clear();
        notes.clear();
        freshId = 0;
        randCalls = 0;
    }
    std::string fresh(const char *pfx)
    {
        return std::string(pfx) + "!" + std::to_string(freshId++);
    }

    //---------------------------------------------------------- memory ops
    uint64_t alloc(uint64_t size, int region, const std::string &name = "")
    {
        uint64_t &nx = region == 0 ? nextGlobal : region == 1 ? nextStack : nextHeap;
        uint64_t base = (nx + 15) & ~15ULL;
        nx = base + std::max<uint64_t>(size, 1) + 16;
        auto o = std::make_shared<MemObj>();
        o->base = base;
        o->size = size;
        o->data.assign(size, 0);
        o->heap = region == 2;
        o->stack = region == 1;
        o->name = name;
        objs[base] = o;
        return base;
    }
    ObjP findObj(uint64_t addr, uint64_t len, bool write)
    {
        auto it = objs.upper_bound(addr);
        if (it == objs.begin())
            throw PathEnd{"violation", "memory: access to unmapped address " + std::to_string(addr)};
        --it;
        ObjP &o = it->second;
        if (addr + len > o->base + o->size || addr < o->base)
            throw PathEnd{"violation", "memory: out-of-bounds access at " + std::to_string(addr) + " len " + std::to_string(len) + " obj " + o->name + " size " + std::to_string(o->size)};
        if (o->freed)
            throw PathEnd{"violation", "memory: use after free " + o->name};
        if (write && o.use_count() > 1)
            o = std::make_shared<MemObj>(*o);
        return o;
    }
    void freeObj(uint64_t addr)
    {
        if (addr == 0)
            return;
        auto it = objs.find(addr);
        if (it == objs.end() || !it->second->heap)
            throw PathEnd{"violation", "memory: invalid free"};
        if (it->second->freed)
            throw PathEnd{"violation", "memory: double free"};
        if (it->second.use_count() > 1)
            it->second = std::make_shared<MemObj>(*it->second);
        it->second->freed = true;
    }
    void writeBytes(uint64_t addr, const void *p, uint64_t n)
    {
        if (!n)
            return;
        ObjP o = findObj(addr, n, true);
        uint64_t off = addr - o->base;
        memcpy(&o->data[off], p, n);
        clearSym(*o, off, n);
    }
    void clearSym(MemObj &o, uint64_t off, uint64_t n)
    {
        if (!o.cells.empty()) {
            // cells completely overwritten simply disappear; only partially overwritten ones are split into bytes
            for (auto it = o.cells.begin(); it != o.cells.end();) {
                if (it->first >= off && it->first + it->second.n <= off + n)
                    it = o.cells.erase(it);
                else
                    ++it;
            }
            if (!o.cells.empty())
                o.explode(off, n);
        }
        if (!o.symb.empty()) {
            auto a = o.symb.lower_bound(off);
            auto b = o.symb.lower_bound(off + n);
            o.symb.erase(a, b);
        }
        if (!o.intcell.empty()) {
            for (auto it = o.intcell.begin(); it != o.intcell.end();) {
                if (it->first < off + n && it->first + 8 > off)
                    it = o.intcell.erase(it);
                else
                    ++it;
            }
        }
    }
    void readBytes(uint64_t addr, void *p, uint64_t n)
    {
        if (!n)
            return;
        ObjP o = findObj(addr, n, false);
        uint64_t off = addr - o->base;
        for (auto &c : o->cells)
            if (c.first < off + n && c.first + c.second.n > off)
                throw PathEnd{"inconclusive", "concrete read of symbolic cell in " + o->name};
        if (!o->symb.empty()) {
            auto a = o->symb.lower_bound(off);
            if (a != o->symb.end() && a->first < off + n)
                throw PathEnd{"inconclusive", "concrete read of symbolic bytes in " + o->name};
        }
        memcpy(p, &o->data[off], n);
    }
    // C string for a native: symbolic bytes are concretised (one path per feasible byte value)
    std::string readCStr(uint64_t addr)
    {
        std::string s;
        Type *i8 = Type::getInt8Ty(M->getContext());
        for (;;) {
            Val x = load(addr++, i8);
            char ch = (char)(x.isC() ? x.u() : concretize(x, 8, "byte of a C string read by a native"));
            if (!ch)
                break;
            s.push_back(ch);
        }
        return s;
    }
    uint64_t rd64(uint64_t a)
    {
        uint64_t v;
        readBytes(a, &v, 8);
        return v;
    }
    uint32_t rd32(uint64_t a)
    {
        uint32_t v;
        readBytes(a, &v, 4);
        return v;
    }
    void wr64(uint64_t a, uint64_t v)
    {
        writeBytes(a, &v, 8);
    }
    void wr32(uint64_t a, uint32_t v)
    {
        writeBytes(a, &v, 4);
    }

    Val load(uint64_t addr, Type *ty)
    {
        if (ty->isStructTy() || ty->isArrayTy()) {
            Val v;
            v.k = Val::AGG;
            if (auto *sty = dyn_cast<StructType>(ty)) {
                auto *sl = DL->getStructLayout(sty);
                for (unsigned i = 0; i < sty->getNumElements(); i++)
                    v.agg.push_back(load(addr + sl->getElementOffset(i), sty->getElementType(i)));
            } else {
                auto *aty = cast<ArrayType>(ty);
                uint64_t es = DL->getTypeAllocSize(aty->getElementType());
                for (unsigned i = 0; i < aty->getNumElements(); i++)
                    v.agg.push_back(load(addr + i * es, aty->getElementType()));
            }
            return v;
        }
        unsigned bits = DL->getTypeSizeInBits(ty);
        uint64_t n = DL->getTypeStoreSize(ty);
        ObjP o = findObj(addr, n, false);
        uint64_t off = addr - o->base;
        if (ty->isIntegerTy() && n > 8 && n % 8 == 0 && !o->cells.empty()) {
            // a wide integer load that merely copies 8-byte slots, some of which hold real-mode doubles: keep the slots apart
            bool hasReal = false;
            for (auto &cc : o->cells)
                if (cc.first >= off && cc.first < off + n && !cc.second.e.get_sort().is_bv())
                    hasReal = true;
            if (hasReal) {
                Val v;
                v.k = Val::AGG;
                Type *i64 = Type::getInt64Ty(ty->getContext()), *dbl = Type::getDoubleTy(ty->getContext());
                for (uint64_t i = 0; i < n; i += 8) {
                    auto cc = o->cells.find(off + i);
                    bool real = cc != o->cells.end() && cc->second.n == 8 && !cc->second.e.get_sort().is_bv();
                    v.agg.push_back(load(addr + i, real ? dbl : i64));
                }
                return v;
            }
        }
        if (!o->cells.empty()) {
            auto c = o->cells.find(off);
            if (c != o->cells.end() && c->second.n == n) {
                z3::expr e = c->second.e;
                if (!e.get_sort().is_bv()) {
                    // an integer-typed load of a real-mode double is a bit copy (struct/closure copies): the value travels as
                    // is; any bit-level *use* of it is rejected where it happens (toBV)
                    return Val::sym(e);
                }
                if (bits < n * 8)
                    e = e.extract(bits - 1, 0);
                Val r = bits < n * 8 ? simp(e) : Val::sym(e);
                if (bits == 1 && r.isS())
                    r.e = (r.e == Z.bv_val(1, 1));
                return r;
            }
            bool ov = false;
            for (auto &cc : o->cells)
                if (cc.first < off + n && cc.first + cc.second.n > off)
                    ov = true;
            if (ov) {
                o = findObj(addr, n, true);
                try {
                    o->explode(off, n);
                } catch (PathEnd &pe) {
                    std::string ts;
                    raw_string_ostream os(ts);
                    ty->print(os);
                    pe.msg += " [load of " + ts + " in " + (stack.empty() ? "?" : demangle(stack.back().f->getName().str()).substr(0, 60)) + "]";
                    throw;
                }
            }
        }
        bool anySym = false;
        if (!o->symb.empty()) {
            auto a = o->symb.lower_bound(off);
            anySym = a != o->symb.end() && a->first < off + n;
        }
        if (!o->intcell.empty()) {
            auto ic = o->intcell.find(off);
            if (ic != o->intcell.end() && n == 8) {
                return Val::sym(z3::int2bv(64, ic->second));
            }
            for (auto &kv : o->intcell)
                if (kv.first < off + n && kv.first + 8 > off)
                    throw PathEnd{"inconclusive", "partial read of Int cell"};
        }
        if (!anySym) {
            APInt r(n * 8, 0);
            for (uint64_t i = 0; i < n; i++)
                r |= APInt(n * 8, o->data[off + i]) << (8 * i);
            return Val::conc(r.trunc(bits));
        }
        z3::expr acc(Z);
        for (uint64_t i = 0; i < n; i++) {
            auto it = o->symb.find(off + i);
            z3::expr b = it != o->symb.end() ? it->second : Z.bv_val((unsigned)o->data[off + i], 8);
            acc = i == 0 ? b : z3::concat(b, acc);
        }
        if (bits < n * 8)
            acc = acc.extract(bits - 1, 0);
        Val r = simp(acc);
        if (bits == 1 && r.isS())
            r.e = (r.e == Z.bv_val(1, 1));
        return r;
    }
    void store(uint64_t addr, const Val &v, Type *ty)
    {
        if (ty->isStructTy() || ty->isArrayTy()) {
            if (v.k != Val::AGG) { // zero/undef aggregate
                uint64_t n = DL->getTypeStoreSize(ty);
                std::vector<uint8_t> z(n, 0);
                writeBytes(addr, z.data(), n);
                return;
            }
            if (auto *sty = dyn_cast<StructType>(ty)) {
                auto *sl = DL->getStructLayout(sty);
                for (unsigned i = 0; i < sty->getNumElements(); i++)
                    store(addr + sl->getElementOffset(i), v.agg[i], sty->getElementType(i));
            } else {
                auto *aty = cast<ArrayType>(ty);
                uint64_t es = DL->getTypeAllocSize(aty->getElementType());
                for (unsigned i = 0; i < aty->getNumElements(); i++)
                    store(addr + i * es, v.agg[i], aty->getElementType());
            }
            return;
        }
        uint64_t n = DL->getTypeStoreSize(ty);
        if (v.k == Val::AGG && ty->isIntegerTy()) { // slot-wise copy (see load)
            Type *i64 = Type::getInt64Ty(ty->getContext()), *dbl = Type::getDoubleTy(ty->getContext());
            for (size_t i = 0; i < v.agg.size(); i++)
                store(addr + 8 * i, v.agg[i], isRealV(v.agg[i]) ? dbl : i64);
            return;
        }
        ObjP o = findObj(addr, n, true);
        uint64_t off = addr - o->base;
        clearSym(*o, off, n);
        if (v.isC() || v.k == Val::UNDEF) {
            APInt a = v.isC() ? v.c.zextOrTrunc(n * 8) : APInt(n * 8, 0);
            for (uint64_t i = 0; i < n; i++)
                o->data[off + i] = (uint8_t)a.extractBitsAsZExtValue(8, 8 * i);
            return;
        }
        unsigned bits = DL->getTypeSizeInBits(ty);
        if (v.e.get_sort().is_real()) {
            o->cells.insert_or_assign(off, MemObj::Cell{v.e, n});
            return;
        }
        z3::expr bv = toBV(v, bits);
        if (bits < n * 8)
            bv = z3::zext(bv, n * 8 - bits);
        if (n == 1)
            o->symb.insert_or_assign(off, bv);
        else
            o->cells.insert_or_assign(off, MemObj::Cell{bv, n});
    }

    //---------------------------------------------------------- solver
    std::unique_ptr<z3::model> mdl; // model of the current path condition (if known)
    std::unique_ptr<z3::expr_vector> subF, subT; // variables fixed to constants on this path
    z3::expr norm(const z3::expr &e)
    {
        if (!subF || subF->size() == 0)
            return e.simplify();
        z3::expr r = e;
        return r.substitute(*subF, *subT).simplify();
    }
    uint64_t fastTimeout = 2000, slowTimeout = 60000;
    z3::check_result checkWith(const z3::expr *extra, bool wantModel)
    {
        auto t0 = std::chrono::steady_clock::now();
        st.queries++;
        S->push();
        if (extra)
            S->add(*extra);
        z3::check_result r = S->check();
        if (r == z3::sat && wantModel)
            mdl.reset(new z3::model(S->get_model()));
        if (r == z3::unknown) {
            // portfolio: one-shot tactic solver on the same assertions
            st.slowQueries++;
            if (getenv("SYMX_DUMP_SLOW")) {
                static int dn = 0;
                std::string fn = "slow_" + std::to_string(dn++) + ".smt2";
                FILE *f = fopen(fn.c_str(), "w");
                if (f) { fputs(S->to_smt2().c_str(), f); fclose(f); }
            }
            z3::solver T = z3::tactic(Z, g_arithUsed ? "qfnia" : "qfbv").mk_solver();
            if (g_realUsed || (!g_arithUsed && g_fpUsed))
                T = z3::solver(Z);
            z3::params pr(Z);
            pr.set("timeout", (unsigned)slowTimeout);
            T.set(pr);
            for (const z3::expr &a : S->assertions())
                T.add(a);
            r = T.check();
            if (r == z3::sat && wantModel)
                mdl.reset(new z3::model(T.get_model()));
            if (r == z3::unknown && getenv("SYMX_DUMP_SLOW")) {
                static int dumpn = 0;
                std::string fn = "unknown_" + std::to_string(dumpn++) + ".smt2";
                FILE *f = fopen(fn.c_str(), "w");
                if (f) {
                    fputs(S->to_smt2().c_str(), f);
                    fclose(f);
                }
            }
        }
        if (r == z3::unknown && g_arithUsed) {
            // the ground cases may still need some propagation time (chains of quotient/remainder definitions)
            z3::params pr(Z);
            pr.set("timeout", (unsigned)(slowTimeout / 2 > fastTimeout ? slowTimeout / 2 : fastTimeout));
            S->set(pr);
            r = splitCheck(wantModel, 4096);
            pr.set("timeout", (unsigned)fastTimeout);
            S->set(pr);
        }
        S->pop();
        if (r == z3::sat) st.sat++; else if (r == z3::unsat) st.unsat++;
        double dt = std::chrono::duration<double>(std::chrono::steady_clock::now() - t0).count();
        st.solver_s += dt;
        if (getenv("SYMX_QLOG") && dt > atof(getenv("SYMX_QLOG")))
            std::cerr << "query " << st.queries << " " << dt << " s result " << r << " native " << (curNative[0] ? curNative : "-") << " in " << (stack.empty() ? "?" : demangle(stack.back().f->getName().str())) << " nassert " << S->assertions().size() << "\n";
        if (r == z3::unknown)
            throw PathEnd{"inconclusive", "solver unknown"};
        return r;
    }
    // last resort for a nonlinear integer query the solvers give up on: a case split, inside the solver call, over all values of one
    // bounded integer input occurring in a nonlinear term (the sub-queries are linear in that variable).  Sound both ways: sat if
    // some case is sat, unsat only if every case is unsat.
    uint64_t splitChecks = 0;
    void nonlinearVars(const z3::expr &e, std::set<unsigned> &seen, std::map<unsigned, z3::expr> &out, bool under)
    {
        if (!e.is_app())
            return;
        if (!seen.insert(e.id() * 2 + (under ? 1 : 0)).second)
            return;
        Z3_decl_kind k = e.decl().decl_kind();
        unsigned n = e.num_args();
        if (n == 0) {
            if (under && k == Z3_OP_UNINTERPRETED && e.get_sort().is_int() && bounds.count(e.id()))
                out.emplace(e.id(), e);
            return;
        }
        bool nl = under;
        if (k == Z3_OP_MUL) {
            unsigned nonnum = 0;
            for (unsigned i = 0; i < n; i++)
                if (!e.arg(i).is_numeral())
                    nonnum++;
            if (nonnum >= 2)
                nl = true;
        } else if (k == Z3_OP_MOD || k == Z3_OP_REM || k == Z3_OP_IDIV || k == Z3_OP_DIV || k == Z3_OP_POWER || k == Z3_OP_INT2BV || k == Z3_OP_BV2INT)
            nl = true; // (the Int -> bit-vector bridge of the hash model mixes theories: splitting makes it ground)
        for (unsigned i = 0; i < n; i++)
            nonlinearVars(e.arg(i), seen, out, nl);
    }
    z3::check_result splitCheck(bool wantModel, long budget)
    {
        std::set<unsigned> seen;
        std::map<unsigned, z3::expr> vars;
        for (const z3::expr &a : S->assertions())
            nonlinearVars(a, seen, vars, false);
        const z3::expr *best = nullptr;
        mpz_class bw = 0, blo = 0;
        for (auto &kv : vars) {
            auto &b = bounds.at(kv.first);
            mpz_class w = b.hi - b.lo + 1;
            if (w <= 1 || w > budget)
                continue;
            // skip variables already fixed by an equation at this level
            if (!best || w < bw) {
                best = &kv.second;
                bw = w;
                blo = b.lo;
            }
        }
        if (!best)
            return z3::unknown;
        splitChecks++;
        bool anyUnknown = false;
        z3::expr var = *best;
        unsigned id = var.id();
        auto saved = bounds.at(id);
        for (mpz_class v = blo; v < blo + bw; v++) {
            S->push();
            S->add(var == Z.int_val(v.get_str().c_str()));
            bounds.at(id).lo = bounds.at(id).hi = v;
            z3::check_result r = S->check();
            if (r == z3::unknown && budget / (long)bw.get_si() >= 2)
                r = splitCheck(wantModel, budget / (long)bw.get_si());
            else if (r == z3::sat && wantModel)
                mdl.reset(new z3::model(S->get_model()));
            S->pop();
            bounds.at(id) = saved;
            if (r == z3::sat)
                return r;
            if (r == z3::unknown)
                anyUnknown = true;
        }
        return anyUnknown ? z3::unknown : z3::unsat;
    }
    bool feasible(const z3::expr &c)
    {
        return checkWith(&c, false) == z3::sat;
    }
    void ensureModel()
    {
        if (!mdl) {
            if (checkWith(nullptr, true) != z3::sat)
                throw PathEnd{(decisions.size() < prefix.size() && !checkedReplay) ? "inconclusive" : "infeasible", std::string(decisions.size() < prefix.size() ? "replay divergence: " : "") + "path condition unsatisfiable in " + (stack.empty() ? std::string("?") : demangle(stack.back().f->getName().str()).substr(0, 80)) + " after " + std::to_string(decisions.size()) + "/" + std::to_string(prefix.size()) + " decisions"};
        }
    }
    bool modelSays(const z3::expr &c)
    {
        ensureModel();
        z3::expr v = mdl->eval(c, true);
        if (v.is_true())
            return true;
        if (v.is_false())
            return false;
        // not fully evaluated: fall back to a query
        mdl.reset();
        return checkWith(&c, true) == z3::sat;
    }
    void addPC(const z3::expr &c)
    {
        S->add(c);
        pc.push_back(c);
        if (mdl) {
            z3::expr v = mdl->eval(c, true);
            if (!v.is_true())
                mdl.reset();
        }
    }
    // identifies the program point of a decision (same module image in every forked worker)
    uint32_t curSite(char kind)
    {
        if (stack.empty())
            return (uint32_t)kind;
        const Instruction *I = &*stack.back().pc;
        return (uint32_t)((uintptr_t)I >> 3) * 2654435761u + (uint32_t)kind;
    }
    // Replay support.  The log contains every decision (also forced ones, flagged).  Term simplification is not perfectly
    // reproducible across worker processes, so a re-execution can meet a condition the original run had folded away (or the
    // other way round).  Entries carry their program point: a mismatch is resynchronised when the extra decision is forced on
    // either side, anything else ends the path as inconclusive ("replay divergence"), never silently.
    bool nextLogged(uint32_t site, const z3::expr *cond, Dec &out)
    {
        while (decisions.size() < prefix.size()) {
            const Dec &d = prefix[decisions.size()];
            if (d.site == site) {
                out = d;
                return true;
            }
            if (d.forced) { // the original run decided something here that this run folded away
                decisions.push_back(d);
                continue;
            }
            if (cond) { // this run meets a condition the original run folded away: it must be forced
                bool t = checkWith(cond, false) == z3::sat;
                z3::expr nc = !*cond;
                bool f = checkWith(&nc, false) == z3::sat;
                if (t != f) {
                    out = Dec{t, "", site, true};
                    out.val = "\x01"; // marker: synthesized, do not consume
                    return true;
                }
            }
            std::string where = stack.empty() ? "?" : demangle(stack.back().f->getName().str()).substr(0, 70);
            char sb[64];
            snprintf(sb, sizeof sb, " site %x log %x@%zu/%zu%s", site, d.site, decisions.size(), prefix.size(), cond ? " branch" : " conc");
            if (checkedReplay) { // give up on the rest of the log: explore everything below this point afresh (sound, may repeat work)
                prefix.resize(decisions.size());
                replayFallbacks++;
                return false;
            }
            throw PathEnd{"inconclusive", "replay divergence in " + where + sb};
        }
        return false;
    }
    void prefixDone()
    {
        // the replayed prefix was feasible when it was created: if it is not now, the replay went astray
        if (prefix.empty() || decisions.size() != prefix.size())
            return;
        mdl.reset();
        if (checkWith(nullptr, true) != z3::sat)
            throw PathEnd{checkedReplay ? "infeasible" : "inconclusive", "replay divergence (prefix infeasible)"};
    }
    // decide a symbolic condition; returns chosen truth value
    bool decide(const z3::expr &cond, uint32_t tag = 0)
    {
        uint32_t site = curSite('b') + tag * 7919u;
        bool take, forced = false;
        Dec lg;
        bool haveLog = nextLogged(site, &cond, lg);
        if (haveLog && checkedReplay && lg.val != "\x01") {
            z3::expr chosen = lg.b ? cond : !cond;
            if (checkWith(&chosen, false) != z3::sat) {
                prefix.resize(decisions.size());
                replayFallbacks++;
                haveLog = false;
            }
        }
        if (haveLog) {
            take = lg.b;
            forced = lg.forced;
            if (lg.val == "\x01") { // synthesized forced decision: not part of the log
                addPC(take ? cond : !cond);
                return take;
            }
            decisions.push_back(Dec{take, "", site, forced});
            addPC(take ? cond : !cond);
            prefixDone();
            return take;
        }
        bool side = modelSays(cond); // this side is feasible (witnessed by the model)
        z3::expr other = side ? !cond : cond;
        std::unique_ptr<z3::model> keep = std::move(mdl);
        bool fo = checkWith(&other, false) == z3::sat;
        mdl = std::move(keep);
        if (fo) {
            st.forks++;
            std::vector<Dec> o = decisions;
            o.push_back(Dec{!side, "", site, false});
            work.push_back(o);
        }
        take = side;
        decisions.push_back(Dec{take, "", site, !fo});
        addPC(take ? cond : !cond);
        return take;
    }
    // replay-safe concretisation: the decision log stores the candidate value, so that a
    // re-execution tests the same value even if the solver's model differs.
    uint64_t concCap = 256;
    std::string concretizeExpr(const z3::expr &e, const char *what, uint64_t cap = 0, uint32_t tag = 0)
    {
        if (!cap)
            cap = concCap;
        uint32_t site = curSite('c') + tag * 7919u;
        // replay resynchronisation: a concretisation the original run did not need (it had folded the term to a constant)
        if (decisions.size() < prefix.size() && prefix[decisions.size()].site != site) {
            ensureModel();
            z3::expr mv = mdl->eval(e, true);
            if (mv.is_numeral()) {
                z3::expr other = (e != mv);
                std::unique_ptr<z3::model> keep = std::move(mdl);
                bool fo = checkWith(&other, false) == z3::sat;
                mdl = std::move(keep);
                if (!fo) {
                    addPC(e == mv);
                    return mv.get_decimal_string(0);
                }
            }
        }
        for (uint64_t n = 0; n < cap; n++) {
            std::string cand;
            bool take, forced = false, logged = false;
            Dec lg;
            bool haveLog = nextLogged(site, nullptr, lg);
            if (haveLog && checkedReplay) {
                bool okc = !lg.val.empty() && (isdigit((unsigned char)lg.val[0]) || lg.val[0] == '-');
                if (okc) {
                    z3::expr cv0 = e.get_sort().is_bv() ? Z.bv_val(lg.val.c_str(), e.get_sort().bv_size()) : Z.int_val(lg.val.c_str());
                    z3::expr chosen = lg.b ? (e == cv0) : (e != cv0);
                    okc = checkWith(&chosen, false) == z3::sat;
                }
                if (!okc) {
                    prefix.resize(decisions.size());
                    replayFallbacks++;
                    haveLog = false;
                }
            }
            if (haveLog) {
                cand = lg.val;
                take = lg.b;
                forced = lg.forced;
                logged = true;
            } else {
                ensureModel();
                z3::expr mv = mdl->eval(e, true);
                if (!mv.is_numeral())
                    throw PathEnd{"inconclusive", "model value of a concretised term is not a numeral: " + mv.to_string().substr(0, 80)};
                cand = mv.get_decimal_string(0);
                take = true;
                z3::expr cv = e.get_sort().is_bv() ? Z.bv_val(cand.c_str(), e.get_sort().bv_size()) : Z.int_val(cand.c_str());
                z3::expr other = (e != cv);
                std::unique_ptr<z3::model> keep = std::move(mdl);
                bool fo = checkWith(&other, false) == z3::sat;
                mdl = std::move(keep);
                forced = !fo;
                if (fo) {
                    st.forks++;
                    std::vector<Dec> o = decisions;
                    o.push_back(Dec{false, cand, site, false});
                    work.push_back(o);
                }
            }
            if (cand.empty() || !(isdigit((unsigned char)cand[0]) || cand[0] == '-'))
                throw PathEnd{"inconclusive", "replay divergence (concretisation entry expected)"};
            z3::expr cv = e.get_sort().is_bv() ? Z.bv_val(cand.c_str(), e.get_sort().bv_size()) : Z.int_val(cand.c_str());
            decisions.push_back(Dec{take, cand, site, forced});
            addPC(take ? (e == cv) : (e != cv));
            if (logged)
                prefixDone();
            if (take) {
                if (e.is_const() && !e.is_numeral()) {
                    if (!subF) { subF.reset(new z3::expr_vector(Z)); subT.reset(new z3::expr_vector(Z)); }
                    subF->push_back(e);
                    subT->push_back(cv);
                }
                return cand;
            }
        }
        throw PathEnd{"inconclusive", std::string("too many feasible values for ") + what};
    }
    uint64_t enumerate(const z3::expr &v, uint64_t n, const char *what)
    {
        return mpz_class(concretizeExpr(v, what, n + 1)).get_ui();
    }
    // model values of the inputs under the current solver state
    std::vector<std::pair<std::string, std::string>> inputModel(bool &ok)
    {
        std::vector<std::pair<std::string, std::string>> r;
        ok = false;
        try {
            mdl.reset();
            ensureModel();
        } catch (...) {
            return r;
        }
        ok = true;
        for (auto &in : inputs) {
            z3::expr v = mdl->eval(in.e, true);
            std::string sv;
            if (v.is_numeral()) {
                if (v.get_sort().is_real()) {
                    sv = v.numerator().get_decimal_string(0) + "/" + v.denominator().get_decimal_string(0);
                } else
                    sv = v.get_decimal_string(0);
            } else
                sv = v.to_string();
            r.emplace_back(in.kind + ":" + in.name, sv);
        }
        return r;
    }
    void violation(const std::string &msg)
    {
        if (!knownCtx.empty()) {
            knownHit.push_back(knownCtx);
            return;
        }
        // a violation only counts on a feasible path: re-check the path condition (also yields the counterexample)
        {
            mdl.reset();
            z3::check_result cr = z3::unknown;
            try {
                cr = checkWith(nullptr, true);
            } catch (PathEnd &) {
            }
            if (cr == z3::unsat)
                throw PathEnd{"infeasible", "violation on an infeasible path ignored: " + msg};
        }
        Viol v;
        v.msg = msg;
        v.model = inputModel(v.modelOk);
        for (auto &f : stack)
            v.stack.push_back(demangle(f.f->getName().str()));
        violations.push_back(std::move(v));
    }
    std::string readCStrSym(uint64_t addr)
    {
        std::string s;
        Type *i8 = Type::getInt8Ty(M->getContext());
        for (;;) {
            Val x = load(addr++, i8);
            if (x.isC()) {
                if (!x.u())
                    break;
                s.push_back((char)x.u());
            } else {
                if (decide(toBV(x, 8) == Z.bv_val(0, 8)))
                    break;
                s.push_back('?');
            }
        }
        return s;
    }
    // std exception support: typeinfo objects and vtables of libstdc++ classes are external; build stand-ins
    std::map<std::string, uint64_t> stdTI, stdVT;
    uint64_t stdTypeInfo(const std::string &name)
    {
        auto it = stdTI.find(name);
        if (it != stdTI.end())
            return it->second;
        if (GlobalVariable *g = M->getGlobalVariable(name))
            return stdTI[name] = addrOf(g);
        throw PathEnd{"inconclusive", "no typeinfo stand-in for " + name};
    }
    uint64_t stdVtable(const std::string &name)
    {
        auto it = stdVT.find(name);
        if (it != stdVT.end())
            return it->second;
        throw PathEnd{"inconclusive", "no vtable stand-in for " + name};
    }
    void stdExcInit(uint64_t o, const std::string &tiName, uint64_t msg)
    {
        std::string m = msg ? readCStrSym(msg) : std::string("std exception");
        uint64_t b = alloc(m.size() + 1, 2, "what");
        writeBytes(b, m.c_str(), m.size() + 1);
        wr64(o, stdVtable("_ZTVSt13runtime_error"));
        wr64(o + 8, b);
    }
    bool derives(uint64_t t, uint64_t c, int64_t &off, int depth)
    {
        if (t == c) {
            off = 0;
            return true;
        }
        if (depth > 12 || !t)
            return false;
        GlobalVariable *si = M->getGlobalVariable("_ZTVN10__cxxabiv120__si_class_type_infoE");
        GlobalVariable *vmi = M->getGlobalVariable("_ZTVN10__cxxabiv121__vmi_class_type_infoE");
        uint64_t vp = rd64(t);
        if (si && vp == addrOf(si) + 16)
            return derives(rd64(t + 16), c, off, depth + 1);
        if (vmi && vp == addrOf(vmi) + 16) {
            uint32_t n = rd32(t + 20);
            for (uint32_t i = 0; i < n; i++) {
                uint64_t bt = rd64(t + 24 + 16 * i);
                int64_t fl = (int64_t)rd64(t + 32 + 16 * i);
                int64_t o2;
                if (derives(bt, c, o2, depth + 1)) {
                    off = (fl >> 8) + o2;
                    return true;
                }
            }
        }
        return false;
    }
    uint64_t concretize(const Val &v, unsigned w, const char *what)
    {
        if (v.isC())
            return v.u();
        z3::expr e = toBV(v, w).simplify();
        if (e.is_numeral())
            return e.get_numeral_uint64();
        return mpz_class(concretizeExpr(e, what)).get_ui();
    }
    mpz_class concretizeInt(const z3::expr &e0, const char *what)
    {
        z3::expr e = e0.simplify();
        if (e.is_numeral())
            return mpz_class(e.get_decimal_string(0));
        return mpz_class(concretizeExpr(e, what));
    }

    //---------------------------------------------------------- constants
    uint64_t addrOf(const GlobalValue *g)
    {
        auto it = gaddr.find(g);
        if (it != gaddr.end())
            return it->second;
        if (auto *ga = dyn_cast<GlobalAlias>(g))
            return gaddr[g] = constVal(ga->getAliasee()).u();
        // external global: allocate opaque object
        uint64_t a = alloc(256, 0, ("extern:" + g->getName()).str());
        gaddr[g] = a;
        return a;
    }
    Val constVal(const Constant *c)
    {
        if (auto *ci = dyn_cast<ConstantInt>(c))
            return Val::conc(ci->getValue());
        if (auto *cf = dyn_cast<ConstantFP>(c))
            return Val::conc(cf->getValueAPF().bitcastToAPInt());
        if (isa<ConstantPointerNull>(c))
            return Val::conc(64, 0);
        if (auto *g = dyn_cast<GlobalValue>(c))
            return Val::conc(64, addrOf(g));
        if (isa<UndefValue>(c) || isa<ConstantAggregateZero>(c)) {
            Type *ty = c->getType();
            if (ty->isStructTy() || ty->isArrayTy()) {
                Val v;
                v.k = Val::AGG;
                unsigned n = ty->isStructTy() ? ty->getStructNumElements() : ty->getArrayNumElements();
                for (unsigned i = 0; i < n; i++)
                    v.agg.push_back(constVal(c->getAggregateElement(i)));
                return v;
            }
            return Val::conc(std::max<unsigned>(1, DL->getTypeSizeInBits(ty)), 0);
        }
        if (isa<ConstantStruct>(c) || isa<ConstantArray>(c) || isa<ConstantDataSequential>(c)) {
            Val v;
            v.k = Val::AGG;
            for (unsigned i = 0; Constant *e = c->getAggregateElement(i); i++)
                v.agg.push_back(constVal(e));
            return v;
        }
        if (auto *ce = dyn_cast<ConstantExpr>(c)) {
            switch (ce->getOpcode()) {
                case Instruction::BitCast:
                case Instruction::AddrSpaceCast:
                    return constVal(ce->getOperand(0));
                case Instruction::PtrToInt:
                case Instruction::IntToPtr: {
                    Val v = constVal(ce->getOperand(0));
                    return Val::conc(v.c.zextOrTrunc(DL->getTypeSizeInBits(ce->getType())));
                }
                case Instruction::GetElementPtr: {
                    auto *gep = cast<GEPOperator>(ce);
                    APInt off(64, 0);
                    if (!gep->accumulateConstantOffset(*DL, off))
                        throw PathEnd{"inconclusive", "non-constant constexpr GEP"};
                    return Val::conc(64, constVal(ce->getOperand(0)).u() + off.getZExtValue());
                }
                case Instruction::Add:
                    return Val::conc(constVal(ce->getOperand(0)).c + constVal(ce->getOperand(1)).c);
                case Instruction::Sub:
                    return Val::conc(constVal(ce->getOperand(0)).c - constVal(ce->getOperand(1)).c);
                case Instruction::Trunc:
                    return Val::conc(constVal(ce->getOperand(0)).c.trunc(DL->getTypeSizeInBits(ce->getType())));
                default:
                    break;
            }
        }
        std::string s;
        raw_string_ostream os(s);
        c->print(os);
        throw PathEnd{"inconclusive", "unsupported constant " + s};
    }
    void writeConst(uint64_t addr, const Constant *c)
    {
        Type *ty = c->getType();
        if (isa<ConstantAggregateZero>(c) || isa<UndefValue>(c))
            return;
        if (auto *cds = dyn_cast<ConstantDataSequential>(c)) {
            StringRef raw = cds->getRawDataValues();
            writeBytes(addr, raw.data(), raw.size());
            return;
        }
        if (auto *sty = dyn_cast<StructType>(ty)) {
            auto *sl = DL->getStructLayout(sty);
            for (unsigned i = 0; i < sty->getNumElements(); i++)
                writeConst(addr + sl->getElementOffset(i), c->getAggregateElement(i));
            return;
        }
        if (auto *aty = dyn_cast<ArrayType>(ty)) {
            uint64_t es = DL->getTypeAllocSize(aty->getElementType());
            for (unsigned i = 0; i < aty->getNumElements(); i++)
                writeConst(addr + i * es, c->getAggregateElement(i));
            return;
        }
        store(addr, constVal(c), ty);
    }

    void initGlobals()
    {
        uint64_t fa = 0x1000;
        for (Function &f : *M) {
            gaddr[&f] = fa;
            faddr[fa] = &f;
            fa += 16;
        }
        for (GlobalVariable &g : M->globals()) {
            if (g.isDeclaration())
                continue;
            uint64_t sz = DL->getTypeAllocSize(g.getValueType());
            gaddr[&g] = alloc(sz, 0, g.getName().str());
        }
        for (GlobalVariable &g : M->globals())
            if (!g.isDeclaration())
                writeConst(gaddr[&g], g.getInitializer());
    }

    //---------------------------------------------------------- execution
    Val &reg(const Value *v)
    {
        return stack.back().regs[v];
    }
    Val get(const Value *v)
    {
        if (auto *c = dyn_cast<Constant>(v))
            return constVal(c);
        auto &r = stack.back().regs;
        auto it = r.find(v);
        if (it == r.end()) {
            std::string s;
            raw_string_ostream os(s);
            v->print(os);
            throw PathEnd{"inconclusive", "use of undefined register " + s};
        }
        return it->second;
    }
    uint64_t ptr(const Val &v, const char *what = "pointer")
    {
        if (v.isC())
            return v.u();
        return concretize(v, 64, what);
    }

    void enterBlock(BasicBlock *to)
    {
        Frame &f = stack.back();
        BasicBlock *from = f.bb;
        // evaluate phis simultaneously
        std::vector<std::pair<const Value *, Val>> ph;
        for (PHINode &p : to->phis())
            ph.emplace_back(&p, get(p.getIncomingValueForBlock(from)));
        for (auto &kv : ph)
            f.regs[kv.first] = kv.second;
        f.prev = from;
        f.bb = to;
        f.pc = to->getFirstNonPHI()->getIterator();
    }
    void pushFrame(Function *fn, std::vector<Val> &args, const CallBase *site)
    {
        if (stack.size() > 2000) // unbounded recursion: natively a stack overflow (the replay confirms it with SIGSEGV)
            throw PathEnd{"violation", "recursion deeper than 2000 frames (stack overflow)"};
        Frame f;
        f.f = fn;
        f.site = site;
        f.bb = &fn->getEntryBlock();
        f.pc = f.bb->begin();
        unsigned i = 0;
        for (Argument &a : fn->args())
            f.regs[&a] = args[i++];
        stack.push_back(std::move(f));
        st.funcs.insert(fn->getName().str());
    }
    void popFrame()
    {
        for (uint64_t a : stack.back().allocas)
            objs.erase(a);
        stack.pop_back();
    }

    // binary op
    Val binop(unsigned opc, const Val &a, const Val &b, unsigned w, const Instruction *I)
    {
        if (a.isC() && b.isC()) {
            const APInt &x = a.c, &y = b.c;
            switch (opc) {
                case Instruction::Add:
                    return Val::conc(x + y);
                case Instruction::Sub:
                    return Val::conc(x - y);
                case Instruction::Mul:
                    return Val::conc(x * y);
                case Instruction::UDiv:
                    if (!y)
                        throw PathEnd{"violation", "division by zero"};
                    return Val::conc(x.udiv(y));
                case Instruction::SDiv:
                    if (!y)
                        throw PathEnd{"violation", "division by zero"};
                    return Val::conc(x.sdiv(y));
                case Instruction::URem:
                    if (!y)
                        throw PathEnd{"violation", "division by zero"};
                    return Val::conc(x.urem(y));
                case Instruction::SRem:
                    if (!y)
                        throw PathEnd{"violation", "division by zero"};
                    return Val::conc(x.srem(y));
                case Instruction::And:
                    return Val::conc(x & y);
                case Instruction::Or:
                    return Val::conc(x | y);
                case Instruction::Xor:
                    return Val::conc(x ^ y);
                case Instruction::Shl:
                    return Val::conc(y.uge(w) ? APInt(w, 0) : x.shl(y));
                case Instruction::LShr:
                    return Val::conc(y.uge(w) ? APInt(w, 0) : x.lshr(y));
                case Instruction::AShr:
                    return Val::conc(y.uge(w) ? x.ashr(w - 1) : x.ashr(y));
            }
        }
        if (w == 1) {
            z3::expr x = toBool(a), y = toBool(b);
            switch (opc) {
                case Instruction::And:
                    return simp(x && y);
                case Instruction::Or:
                    return simp(x || y);
                case Instruction::Xor:
                    return simp(x != y);
                case Instruction::Add:
                case Instruction::Sub:
                    return simp(x != y);
            }
        }
        z3::expr x = toBV(a, w), y = toBV(b, w);
        switch (opc) {
            case Instruction::Add:
                return simp(x + y);
            case Instruction::Sub:
                return simp(x - y);
            case Instruction::Mul:
                return simp(x * y);
            case Instruction::UDiv:
            case Instruction::SDiv:
            case Instruction::URem:
            case Instruction::SRem: {
                if (!b.isC() && decide(y == Z.bv_val(0, w)))
                    throw PathEnd{"violation", "division by zero"};
                if (opc == Instruction::UDiv)
                    return simp(z3::udiv(x, y));
                if (opc == Instruction::SDiv)
                    return simp(x / y);
                if (opc == Instruction::URem)
                    return simp(z3::urem(x, y));
                return simp(z3::srem(x, y));
            }
            case Instruction::And:
                return simp(x & y);
            case Instruction::Or:
                return simp(x | y);
            case Instruction::Xor:
                return simp(x ^ y);
            case Instruction::Shl:
                return simp(z3::shl(x, y));
            case Instruction::LShr:
                return simp(z3::lshr(x, y));
            case Instruction::AShr:
                return simp(z3::ashr(x, y));
        }
        throw PathEnd{"inconclusive", "binop"};
    }
    Val icmp(CmpInst::Predicate p, const Val &a, const Val &b, unsigned w)
    {
        if (a.isC() && b.isC()) {
            const APInt &x = a.c, &y = b.c;
            bool r = false;
            switch (p) {
                case CmpInst::ICMP_EQ: r = x == y; break;
                case CmpInst::ICMP_NE: r = x != y; break;
                case CmpInst::ICMP_UGT: r = x.ugt(y); break;
                case CmpInst::ICMP_UGE: r = x.uge(y); break;
                case CmpInst::ICMP_ULT: r = x.ult(y); break;
                case CmpInst::ICMP_ULE: r = x.ule(y); break;
                case CmpInst::ICMP_SGT: r = x.sgt(y); break;
                case CmpInst::ICMP_SGE: r = x.sge(y); break;
                case CmpInst::ICMP_SLT: r = x.slt(y); break;
                case CmpInst::ICMP_SLE: r = x.sle(y); break;
                default: break;
            }
            return Val::conc(1, r);
        }
        if (w == 1) {
            z3::expr x = toBool(a), y = toBool(b);
            if (p == CmpInst::ICMP_EQ)
                return simp(x == y);
            if (p == CmpInst::ICMP_NE)
                return simp(x != y);
        }
        z3::expr x = toBV(a, w), y = toBV(b, w);
        switch (p) {
            case CmpInst::ICMP_EQ: return simp(x == y);
            case CmpInst::ICMP_NE: return simp(x != y);
            case CmpInst::ICMP_UGT: return simp(z3::ugt(x, y));
            case CmpInst::ICMP_UGE: return simp(z3::uge(x, y));
            case CmpInst::ICMP_ULT: return simp(z3::ult(x, y));
            case CmpInst::ICMP_ULE: return simp(z3::ule(x, y));
            case CmpInst::ICMP_SGT: return simp(x > y);
            case CmpInst::ICMP_SGE: return simp(x >= y);
            case CmpInst::ICMP_SLT: return simp(x < y);
            case CmpInst::ICMP_SLE: return simp(x <= y);
            default: break;
        }
        throw PathEnd{"inconclusive", "icmp"};
    }
    static double bitsToD(const APInt &a)
    {
        uint64_t u = a.getZExtValue();
        double d;
        memcpy(&d, &u, 8);
        return d;
    }
    static Val dToVal(double d)
    {
        uint64_t u;
        memcpy(&u, &d, 8);
        return Val::conc(64, u);
    }
    Val fcmp(CmpInst::Predicate p, const Val &a, const Val &b, unsigned w)
    {
        if (a.isC() && b.isC() && w == 64) {
            double x = bitsToD(a.c), y = bitsToD(b.c);
            bool un = std::isnan(x) || std::isnan(y), r = false;
            switch (p) {
                case CmpInst::FCMP_OEQ: r = x == y; break;
                case CmpInst::FCMP_ONE: r = !un && x != y; break;
                case CmpInst::FCMP_OGT: r = x > y; break;
                case CmpInst::FCMP_OGE: r = x >= y; break;
                case CmpInst::FCMP_OLT: r = x < y; break;
                case CmpInst::FCMP_OLE: r = x <= y; break;
                case CmpInst::FCMP_ORD: r = !un; break;
                case CmpInst::FCMP_UNO: r = un; break;
                case CmpInst::FCMP_UEQ: r = un || x == y; break;
                case CmpInst::FCMP_UNE: r = un || x != y; break;
                case CmpInst::FCMP_UGT: r = un || x > y; break;
                case CmpInst::FCMP_UGE: r = un || x >= y; break;
                case CmpInst::FCMP_ULT: r = un || x < y; break;
                case CmpInst::FCMP_ULE: r = un || x <= y; break;
                case CmpInst::FCMP_TRUE: r = true; break;
                default: r = false;
            }
            return Val::conc(1, r);
        }
        if (isRealV(a) || isRealV(b)) {
            z3::expr x = toRealE(a, w), y = toRealE(b, w);
            switch (p) {
                case CmpInst::FCMP_OEQ: case CmpInst::FCMP_UEQ: return simp(x == y);
                case CmpInst::FCMP_ONE: case CmpInst::FCMP_UNE: return simp(x != y);
                case CmpInst::FCMP_OGT: case CmpInst::FCMP_UGT: return simp(x > y);
                case CmpInst::FCMP_OGE: case CmpInst::FCMP_UGE: return simp(x >= y);
                case CmpInst::FCMP_OLT: case CmpInst::FCMP_ULT: return simp(x < y);
                case CmpInst::FCMP_OLE: case CmpInst::FCMP_ULE: return simp(x <= y);
                case CmpInst::FCMP_ORD: return Val::conc(1, 1);
                case CmpInst::FCMP_UNO: return Val::conc(1, 0);
                default: break;
            }
            throw PathEnd{"inconclusive", "fcmp(real)"};
        }
        z3::expr x = toFP(a, w), y = toFP(b, w);
        z3::expr un = x.mk_is_nan() || y.mk_is_nan();
        switch (p) {
            case CmpInst::FCMP_OEQ: return simp(z3::fp_eq(x, y));
            case CmpInst::FCMP_ONE: return simp(!un && !z3::fp_eq(x, y));
            case CmpInst::FCMP_OGT: return simp(x > y);
            case CmpInst::FCMP_OGE: return simp(x >= y);
            case CmpInst::FCMP_OLT: return simp(x < y);
            case CmpInst::FCMP_OLE: return simp(x <= y);
            case CmpInst::FCMP_ORD: return simp(!un);
            case CmpInst::FCMP_UNO: return simp(un);
            case CmpInst::FCMP_UEQ: return simp(un || z3::fp_eq(x, y));
            case CmpInst::FCMP_UNE: return simp(un || !z3::fp_eq(x, y));
            case CmpInst::FCMP_UGT: return simp(un || x > y);
            case CmpInst::FCMP_UGE: return simp(un || x >= y);
            case CmpInst::FCMP_ULT: return simp(un || x < y);
            case CmpInst::FCMP_ULE: return simp(un || x <= y);
            default: break;
        }
        throw PathEnd{"inconclusive", "fcmp"};
    }
    Val fbin(unsigned opc, const Val &a, const Val &b, unsigned w)
    {
        if (a.isC() && b.isC() && w == 64) {
            double x = bitsToD(a.c), y = bitsToD(b.c);
            switch (opc) {
                case Instruction::FAdd: return dToVal(x + y);
                case Instruction::FSub: return dToVal(x - y);
                case Instruction::FMul: return dToVal(x * y);
                case Instruction::FDiv: return dToVal(x / y);
                case Instruction::FRem: return dToVal(std::fmod(x, y));
            }
        }
        if (isRealV(a) || isRealV(b)) {
            z3::expr x = toRealE(a, w), y = toRealE(b, w);
            switch (opc) {
                case Instruction::FAdd: return Val::sym((x + y).simplify());
                case Instruction::FSub: return Val::sym((x - y).simplify());
                case Instruction::FMul: return Val::sym((x * y).simplify());
                case Instruction::FDiv: {
                    // singularities are outside the real abstraction: the divisor is constrained to be non-zero (recorded)
                    if (b.isC() && bitsToD(b.c) == 0.0)
                        throw PathEnd{"infeasible", "real-mode division by zero (singular point pruned)"};
                    if (!b.isC())
                        pruneZero(y);
                    return Val::sym((x / y).simplify());
                }
            }
            throw PathEnd{"inconclusive", "fbin(real)"};
        }
        if (a.isC() && b.isC() && w == 32) {
            auto f = [](const APInt &q) { uint32_t u = (uint32_t)q.getZExtValue(); float r; memcpy(&r, &u, 4); return r; };
            float x = f(a.c), y = f(b.c), r;
            switch (opc) {
                case Instruction::FAdd: r = x + y; break;
                case Instruction::FSub: r = x - y; break;
                case Instruction::FMul: r = x * y; break;
                case Instruction::FDiv: r = x / y; break;
                default: r = std::fmod(x, y);
            }
            uint32_t u; memcpy(&u, &r, 4);
            return Val::conc(32, u);
        }
        if (w != 64)
            throw PathEnd{"inconclusive", "non-double fp op"};
        z3::expr x = toFP(a, w), y = toFP(b, w);
        Z.set_rounding_mode(z3::RNE);
        switch (opc) {
            case Instruction::FAdd: return Val::sym(x + y);
            case Instruction::FSub: return Val::sym(x - y);
            case Instruction::FMul: return Val::sym(x * y);
            case Instruction::FDiv: return Val::sym(x / y);
        }
        throw PathEnd{"inconclusive", "fbin"};
    }

    uint64_t gepAddr(const GEPOperator *gep, const Val &base)
    {
        uint64_t addr = ptr(base);
        for (auto it = gep_type_begin(gep), e = gep_type_end(gep); it != e; ++it) {
            Val idx = get(it.getOperand());
            if (StructType *sty = it.getStructTypeOrNull()) {
                addr += DL->getStructLayout(sty)->getElementOffset(idx.u());
            } else {
                uint64_t es = DL->getTypeAllocSize(it.getIndexedType());
                unsigned iw = it.getOperand()->getType()->getIntegerBitWidth();
                int64_t i;
                if (idx.isC())
                    i = idx.c.getSExtValue();
                else {
                    uint64_t u = concretize(idx, iw, "gep index");
                    i = APInt(iw, u).getSExtValue();
                }
                addr += (uint64_t)(i * (int64_t)es);
            }
        }
        return addr;
    }

    // typeinfo matching for exceptions: does thrown type `t` derive from catch type `c`
    bool typeMatches(uint64_t t, uint64_t c)
    {
        if (c == 0)
            return true; // catch (...)
        {
            int64_t off;
            try {
                if (derives(t, c, off, 0))
                    return true;
            } catch (PathEnd &) {
            }
        }
        for (int depth = 0; depth < 16 && t; depth++) {
            if (t == c)
                return true;
            // __si_class_type_info: {vptr, name, base}; size 24
            auto it = objs.upper_bound(t);
            if (it == objs.begin())
                return false;
            --it;
            if (it->second->size >= t - it->second->base + 24)
                t = rd64(t + 16);
            else
                return false;
        }
        return false;
    }
    std::unordered_map<uint64_t, int> typeIds;
    int typeIdFor(uint64_t ti)
    {
        auto it = typeIds.find(ti);
        if (it != typeIds.end())
            return it->second;
        int id = (int)typeIds.size() + 1;
        return typeIds[ti] = id;
    }

    void doReturn(const Val &rv)
    {
        const CallBase *site = stack.back().site;
        popFrame();
        if (stack.empty())
            return;
        Frame &f = stack.back();
        if (site) {
            if (!site->getType()->isVoidTy())
                f.regs[site] = rv;
            if (auto *inv = dyn_cast<InvokeInst>(site))
                enterBlock(inv->getNormalDest());
        }
    }
    // start/continue unwinding: pop frames until an invoke site
    void unwind()
    {
        for (;;) {
            const CallBase *site = stack.back().site;
            popFrame();
            if (stack.empty()) {
                std::string tn = exnType ? demangleType(exnType) : "?";
                throw PathEnd{"throw", tn};
            }
            if (site && isa<InvokeInst>(site)) {
                auto *inv = cast<InvokeInst>(site);
                landing(inv);
                return;
            }
        }
    }
    std::string demangleType(uint64_t ti)
    {
        try {
            uint64_t np = rd64(ti + 8);
            return demangle("_ZTS" + readCStr(np)).substr(0);
        } catch (...) {
            return "?";
        }
    }
    void landing(const InvokeInst *inv)
    {
        BasicBlock *lpbb = inv->getUnwindDest();
        enterBlock(lpbb);
        Frame &f = stack.back();
        auto *lp = cast<LandingPadInst>(&*f.pc);
        int sel = 0;
        for (unsigned i = 0; i < lp->getNumClauses(); i++) {
            if (lp->isCatch(i)) {
                uint64_t cty = constVal(lp->getClause(i)).u();
                if (typeMatches(exnType, cty)) {
                    sel = cty ? typeIdFor(cty) : typeIdFor(0);
                    break;
                }
            }
        }
        Val v;
        v.k = Val::AGG;
        v.agg.push_back(Val::conc(64, exnObj));
        v.agg.push_back(Val::conc(32, sel));
        f.regs[lp] = v;
        ++f.pc;
    }

    const char *curNative = "";
    void callFunction(const CallBase *cb, Function *callee, std::vector<Val> &args)
    {
        std::string name = callee->getName().str();
        auto nit = natives.find(name);
        if (nit != natives.end()) {
            curNative = nit->first.c_str();
            Val r = nit->second(*this, args, cb);
            curNative = "";
            if (unwinding) {
                unwinding = false;
                // the native threw: unwind from the *current* frame at this call
                if (auto *inv = dyn_cast<InvokeInst>(cb)) {
                    landing(inv);
                } else
                    unwind();
                return;
            }
            if (!cb->getType()->isVoidTy())
                reg(cb) = r;
            if (auto *inv = dyn_cast<InvokeInst>(cb))
                enterBlock(inv->getNormalDest());
            return;
        }
        if (!hooks.empty()) {
            auto hit = hooks.find(name);
            if (hit != hooks.end()) {
                Val r;
                if (hit->second(*this, args, cb, r)) {
                    hooksUsed.insert(name);
                    if (!cb->getType()->isVoidTy())
                        reg(cb) = r;
                    if (auto *inv = dyn_cast<InvokeInst>(cb))
                        enterBlock(inv->getNormalDest());
                    return;
                }
            }
        }
        if (callee->isDeclaration()) {
            missing.insert(name);
            throw PathEnd{"inconclusive", "missing external " + demangle(name)};
        }
        pushFrame(callee, args, cb);
    }

    void step()
    {
        Frame &F = stack.back();
        Instruction *I = &*F.pc;
        ++F.pc;
        st.instrs++;
        if (++pathInstr > instrBudget) // possible non-termination: reported only if the native replay does not terminate either
            throw PathEnd{"violation", "non-termination suspected: more than " + std::to_string(instrBudget) + " instructions on one path"};
        if (trace) {
            errs() << F.f->getName() << ": ";
            I->print(errs());
            errs() << "\n";
        }
        switch (I->getOpcode()) {
            case Instruction::Alloca: {
                auto *ai = cast<AllocaInst>(I);
                uint64_t n = 1;
                if (ai->isArrayAllocation())
                    n = get(ai->getArraySize()).u();
                uint64_t sz = DL->getTypeAllocSize(ai->getAllocatedType()) * n;
                uint64_t a = alloc(sz, 1, "alloca");
                F.allocas.push_back(a);
                F.regs[I] = Val::conc(64, a);
                break;
            }
            case Instruction::Load: {
                auto *li = cast<LoadInst>(I);
                uint64_t a = ptr(get(li->getPointerOperand()), "load address");
                F.regs[I] = load(a, li->getType());
                break;
            }
            case Instruction::Store: {
                auto *si = cast<StoreInst>(I);
                uint64_t a = ptr(get(si->getPointerOperand()), "store address");
                store(a, get(si->getValueOperand()), si->getValueOperand()->getType());
                break;
            }
            case Instruction::GetElementPtr: {
                auto *gep = cast<GEPOperator>(I);
                F.regs[I] = Val::conc(64, gepAddr(gep, get(gep->getPointerOperand())));
                break;
            }
            case Instruction::BitCast: {
                Val v = get(I->getOperand(0));
                Type *dt = I->getType(), *stp = I->getOperand(0)->getType();
                if (v.isS() && dt->isIntegerTy() && stp->isFloatingPointTy())
                    v = Val::sym(toBV(v, DL->getTypeSizeInBits(dt)));
                if (v.isC() && dt->isVectorTy())
                    throw PathEnd{"inconclusive", "vector bitcast"};
                F.regs[I] = v;
                break;
            }
            case Instruction::AddrSpaceCast:
            case Instruction::Freeze:
                F.regs[I] = get(I->getOperand(0));
                break;
            case Instruction::PtrToInt:
            case Instruction::IntToPtr:
            case Instruction::ZExt:
            case Instruction::Trunc:
            case Instruction::SExt: {
                Val v = get(I->getOperand(0));
                unsigned sw = DL->getTypeSizeInBits(I->getOperand(0)->getType());
                unsigned dw = DL->getTypeSizeInBits(I->getType());
                bool sx = I->getOpcode() == Instruction::SExt;
                if (v.isC()) {
                    F.regs[I] = Val::conc(sx ? v.c.sextOrTrunc(dw) : v.c.zextOrTrunc(dw));
                } else if (v.k == Val::UNDEF) {
                    F.regs[I] = Val::conc(dw, 0);
                } else {
                    z3::expr e = toBV(v, sw);
                    if (dw > sw)
                        e = sx ? z3::sext(e, dw - sw) : z3::zext(e, dw - sw);
                    else if (dw < sw)
                        e = e.extract(dw - 1, 0);
                    Val r = simp(e);
                    if (dw == 1 && r.isS())
                        r.e = (r.e == Z.bv_val(1, 1));
                    F.regs[I] = r;
                }
                break;
            }
            case Instruction::Add: case Instruction::Sub: case Instruction::Mul:
            case Instruction::UDiv: case Instruction::SDiv: case Instruction::URem:
            case Instruction::SRem: case Instruction::And: case Instruction::Or:
            case Instruction::Xor: case Instruction::Shl: case Instruction::LShr:
            case Instruction::AShr: {
                unsigned w = I->getType()->getIntegerBitWidth();
                F.regs[I] = binop(I->getOpcode(), get(I->getOperand(0)), get(I->getOperand(1)), w, I);
                break;
            }
            case Instruction::FAdd: case Instruction::FSub: case Instruction::FMul:
            case Instruction::FDiv: case Instruction::FRem: {
                unsigned w = DL->getTypeSizeInBits(I->getType());
                F.regs[I] = fbin(I->getOpcode(), get(I->getOperand(0)), get(I->getOperand(1)), w);
                break;
            }
            case Instruction::FNeg: {
                Val v = get(I->getOperand(0));
                unsigned w = DL->getTypeSizeInBits(I->getType());
                if (v.isC())
                    F.regs[I] = Val::conc(v.c ^ APInt::getSignMask(w));
                else if (isRealV(v))
                    F.regs[I] = Val::sym((-v.e).simplify());
                else
                    F.regs[I] = simp(toBV(v, w) ^ bvval(APInt::getSignMask(w)));
                break;
            }
            case Instruction::ICmp: {
                auto *ci = cast<ICmpInst>(I);
                unsigned w = DL->getTypeSizeInBits(ci->getOperand(0)->getType());
                F.regs[I] = icmp(ci->getPredicate(), get(ci->getOperand(0)), get(ci->getOperand(1)), w);
                break;
            }
            case Instruction::FCmp: {
                auto *ci = cast<FCmpInst>(I);
                unsigned w = DL->getTypeSizeInBits(ci->getOperand(0)->getType());
                F.regs[I] = fcmp(ci->getPredicate(), get(ci->getOperand(0)), get(ci->getOperand(1)), w);
                break;
            }
            case Instruction::SIToFP: case Instruction::UIToFP: {
                Val v = get(I->getOperand(0));
                unsigned sw = I->getOperand(0)->getType()->getIntegerBitWidth();
                bool sg = I->getOpcode() == Instruction::SIToFP;
                if (!I->getType()->isDoubleTy())
                    throw PathEnd{"inconclusive", "int to non-double"};
                if (v.isC()) {
                    double d = sg ? (double)v.c.getSExtValue() : (double)v.c.getZExtValue();
                    F.regs[I] = dToVal(d);
                } else if (v.isS() && v.e.get_sort().is_int()) {
                    F.regs[I] = Val::sym(z3::to_real(v.e));
                } else if (g_realMode) {
                    z3::expr bv = toBV(v, sw);
                    F.regs[I] = Val::sym(z3::to_real(z3::expr(Z, Z3_mk_bv2int(Z, bv, sg))));
                } else {
                    z3::expr bv = toBV(v, sw);
                    z3::sort ds = Z.fpa_sort(11, 53);
                    Z.set_rounding_mode(z3::RNE);
                    F.regs[I] = Val::sym(sg ? z3::sbv_to_fpa(bv, ds) : z3::ubv_to_fpa(bv, ds));
                }
                break;
            }
            case Instruction::FPToSI: case Instruction::FPToUI: {
                Val v = get(I->getOperand(0));
                unsigned dw = I->getType()->getIntegerBitWidth();
                bool sg = I->getOpcode() == Instruction::FPToSI;
                if (v.isC()) {
                    double d = bitsToD(v.c);
                    F.regs[I] = sg ? Val::conc(dw, (uint64_t)(int64_t)d, true) : Val::conc(dw, (uint64_t)d);
                } else if (isRealV(v)) {
                    z3::expr fl(Z, Z3_mk_real2int(Z, v.e));
                    z3::expr ng(Z, Z3_mk_real2int(Z, -v.e));
                    z3::expr t = z3::ite(v.e >= 0, fl, -ng);
                    F.regs[I] = Val::sym(z3::int2bv(dw, t));
                } else {
                    z3::expr f = toFP(v, 64);
                    z3::expr rtz(Z, Z3_mk_fpa_rtz(Z));
                    z3::expr r(Z, sg ? Z3_mk_fpa_to_sbv(Z, rtz, f, dw) : Z3_mk_fpa_to_ubv(Z, rtz, f, dw));
                    F.regs[I] = Val::sym(r);
                }
                break;
            }
            case Instruction::FPExt: case Instruction::FPTrunc: {
                Val v = get(I->getOperand(0));
                if (isRealV(v)) {
                    F.regs[I] = v; // real abstraction: no rounding
                    break;
                }
                if (!v.isC())
                    throw PathEnd{"inconclusive", "symbolic fpext"};
                if (I->getOpcode() == Instruction::FPExt && I->getOperand(0)->getType()->isFloatTy() && I->getType()->isDoubleTy()) {
                    uint32_t u = v.c.getZExtValue();
                    float f;
                    memcpy(&f, &u, 4);
                    F.regs[I] = dToVal((double)f);
                } else if (I->getOpcode() == Instruction::FPTrunc && I->getType()->isFloatTy()) {
                    float f = (float)bitsToD(v.c);
                    uint32_t u;
                    memcpy(&u, &f, 4);
                    F.regs[I] = Val::conc(32, u);
                } else
                    throw PathEnd{"inconclusive", "fp conversion"};
                break;
            }
            case Instruction::Select: {
                Val c = get(I->getOperand(0));
                if (c.isC())
                    F.regs[I] = get(I->getOperand(c.c.getBoolValue() ? 1 : 2));
                else {
                    Val a = get(I->getOperand(1)), b = get(I->getOperand(2));
                    Type *ty = I->getType();
                    if (ty->isStructTy() || ty->isArrayTy() || ty->isPointerTy()) {
                        F.regs[I] = decide(toBool(c)) ? a : b;
                    } else {
                        unsigned w = DL->getTypeSizeInBits(ty);
                        if (w == 1)
                            F.regs[I] = simp(z3::ite(toBool(c), toBool(a), toBool(b)));
                        else if (isRealV(a) || isRealV(b) || (g_realMode && ty->isDoubleTy()))
                            F.regs[I] = Val::sym(z3::ite(toBool(c), toRealE(a, w), toRealE(b, w)));
                        else if ((a.isS() && a.e.get_sort().is_fpa()) || (b.isS() && b.e.get_sort().is_fpa()))
                            F.regs[I] = Val::sym(z3::ite(toBool(c), toFP(a, w), toFP(b, w)));
                        else
                            F.regs[I] = simp(z3::ite(toBool(c), toBV(a, w), toBV(b, w)));
                    }
                }
                break;
            }
            case Instruction::PHI:
                throw PathEnd{"inconclusive", "stray phi"};
            case Instruction::Br: {
                auto *br = cast<BranchInst>(I);
                if (br->isUnconditional())
                    enterBlock(br->getSuccessor(0));
                else {
                    Val c = get(br->getCondition());
                    bool t = c.isC() ? c.c.getBoolValue() : (c.k == Val::UNDEF ? false : decide(toBool(c)));
                    enterBlock(br->getSuccessor(t ? 0 : 1));
                }
                break;
            }
            case Instruction::Switch: {
                auto *sw = cast<SwitchInst>(I);
                Val c = get(sw->getCondition());
                unsigned w = sw->getCondition()->getType()->getIntegerBitWidth();
                BasicBlock *dest = sw->getDefaultDest();
                if (c.isC()) {
                    for (auto &cs : sw->cases())
                        if (cs.getCaseValue()->getValue() == c.c) {
                            dest = cs.getCaseSuccessor();
                            break;
                        }
                } else {
                    z3::expr e = toBV(c, w);
                    // group cases by successor (re2c DFAs have one case per byte value)
                    std::vector<std::pair<BasicBlock *, z3::expr>> groups;
                    for (auto &cs : sw->cases()) {
                        z3::expr m = (e == bvval(cs.getCaseValue()->getValue()));
                        bool f = false;
                        for (auto &g : groups)
                            if (g.first == cs.getCaseSuccessor()) {
                                g.second = g.second || m;
                                f = true;
                                break;
                            }
                        if (!f)
                            groups.emplace_back(cs.getCaseSuccessor(), m);
                    }
                    for (auto &g : groups)
                        if (decide(g.second)) {
                            dest = g.first;
                            break;
                        }
                }
                enterBlock(dest);
                break;
            }
            case Instruction::Ret: {
                auto *ri = cast<ReturnInst>(I);
                Val rv;
                if (ri->getReturnValue())
                    rv = get(ri->getReturnValue());
                doReturn(rv);
                break;
            }
            case Instruction::Unreachable:
                throw PathEnd{"violation", "unreachable executed in " + demangle(F.f->getName().str())};
            case Instruction::ExtractValue: {
                auto *ev = cast<ExtractValueInst>(I);
                Val v = get(ev->getAggregateOperand());
                for (unsigned idx : ev->indices()) {
                    if (v.k != Val::AGG) {
                        v = Val::conc(std::max<unsigned>(1, DL->getTypeSizeInBits(ev->getType())), 0);
                        break;
                    }
                    Val t = v.agg[idx];
                    v = t;
                }
                F.regs[I] = v;
                break;
            }
            case Instruction::InsertValue: {
                auto *iv = cast<InsertValueInst>(I);
                Val agg = get(iv->getAggregateOperand());
                std::function<void(Val &, Type *, ArrayRef<unsigned>)> ins = [&](Val &a, Type *ty, ArrayRef<unsigned> idx) {
                    if (a.k != Val::AGG) {
                        a = Val();
                        a.k = Val::AGG;
                        unsigned n = ty->isStructTy() ? ty->getStructNumElements() : ty->getArrayNumElements();
                        a.agg.resize(n);
                    }
                    Type *et = ty->isStructTy() ? ty->getStructElementType(idx[0]) : ty->getArrayElementType();
                    if (idx.size() == 1)
                        a.agg[idx[0]] = get(iv->getInsertedValueOperand());
                    else
                        ins(a.agg[idx[0]], et, idx.slice(1));
                };
                ins(agg, iv->getType(), iv->getIndices());
                F.regs[I] = agg;
                break;
            }
            case Instruction::LandingPad:
                throw PathEnd{"inconclusive", "landingpad reached by fallthrough"};
            case Instruction::Resume: {
                Val v = get(I->getOperand(0));
                exnObj = v.agg[0].u();
                unwind();
                break;
            }
            case Instruction::Fence:
                break;
            case Instruction::AtomicRMW: {
                auto *rmw = cast<AtomicRMWInst>(I);
                uint64_t a = ptr(get(rmw->getPointerOperand()));
                Type *ty = rmw->getValOperand()->getType();
                Val old = load(a, ty);
                Val x = get(rmw->getValOperand());
                unsigned w = ty->getIntegerBitWidth();
                Val nv;
                switch (rmw->getOperation()) {
                    case AtomicRMWInst::Add: nv = binop(Instruction::Add, old, x, w, I); break;
                    case AtomicRMWInst::Sub: nv = binop(Instruction::Sub, old, x, w, I); break;
                    case AtomicRMWInst::Xchg: nv = x; break;
                    default: throw PathEnd{"inconclusive", "atomicrmw op"};
                }
                store(a, nv, ty);
                F.regs[I] = old;
                break;
            }
            case Instruction::Call:
            case Instruction::Invoke: {
                auto *cb = cast<CallBase>(I);
                if (auto *ii = dyn_cast<IntrinsicInst>(cb)) {
                    if (intrinsic(ii))
                        break;
                }
                std::vector<Val> args;
                for (auto &a : cb->args())
                    args.push_back(get(a.get()));
                Function *callee = cb->getCalledFunction();
                if (!callee) {
                    Val fp = get(cb->getCalledOperand());
                    uint64_t a = ptr(fp, "function pointer");
                    auto it = faddr.find(a);
                    if (it == faddr.end())
                        throw PathEnd{"violation", "indirect call to non-function address " + std::to_string(a)};
                    callee = it->second;
                }
                callFunction(cb, callee, args);
                break;
            }
            default: {
                std::string s;
                raw_string_ostream os(s);
                I->print(os);
                throw PathEnd{"inconclusive", "unsupported instruction " + s};
            }
        }
    }

    bool intrinsic(const IntrinsicInst *ii)
    {
        Frame &F = stack.back();
        auto done = [&](const Val &v) {
            if (!ii->getType()->isVoidTy())
                F.regs[ii] = v;
            if (auto *inv = dyn_cast<InvokeInst>(ii))
                enterBlock(const_cast<InvokeInst *>(inv)->getNormalDest());
            return true;
        };
        switch (ii->getIntrinsicID()) {
            case Intrinsic::lifetime_start: case Intrinsic::lifetime_end:
            case Intrinsic::assume: case Intrinsic::experimental_noalias_scope_decl:
            case Intrinsic::dbg_declare: case Intrinsic::dbg_value: case Intrinsic::dbg_label:
            case Intrinsic::invariant_start: case Intrinsic::invariant_end:
                return done(Val());
            case Intrinsic::memcpy: case Intrinsic::memmove: {
                uint64_t d = ptr(get(ii->getArgOperand(0))), s = ptr(get(ii->getArgOperand(1)));
                uint64_t n = ptr(get(ii->getArgOperand(2)), "memcpy length");
                memCopy(d, s, n);
                return done(Val());
            }
            case Intrinsic::memset: {
                uint64_t d = ptr(get(ii->getArgOperand(0)));
                Val b = get(ii->getArgOperand(1));
                uint64_t n = ptr(get(ii->getArgOperand(2)), "memset length");
                if (n) {
                    if (!b.isC())
                        throw PathEnd{"inconclusive", "symbolic memset value"};
                    std::vector<uint8_t> z(n, (uint8_t)b.u());
                    writeBytes(d, z.data(), n);
                }
                return done(Val());
            }
            case Intrinsic::trap:
                throw PathEnd{"violation", "llvm.trap"};
            case Intrinsic::eh_typeid_for:
                return done(Val::conc(32, typeIdFor(get(ii->getArgOperand(0)).u())));
            case Intrinsic::fabs: {
                Val v = get(ii->getArgOperand(0));
                unsigned w = DL->getTypeSizeInBits(ii->getType());
                if (v.isC())
                    return done(Val::conc(v.c & ~APInt::getSignMask(w)));
                if (isRealV(v))
                    return done(Val::sym(z3::ite(v.e >= 0, v.e, -v.e)));
                return done(simp(toBV(v, w) & bvval(~APInt::getSignMask(w))));
            }
            case Intrinsic::floor: case Intrinsic::ceil: case Intrinsic::trunc: case Intrinsic::sqrt: {
                Val v = get(ii->getArgOperand(0));
                if (v.isC()) {
                    double d = bitsToD(v.c);
                    switch (ii->getIntrinsicID()) {
                        case Intrinsic::floor: d = std::floor(d); break;
                        case Intrinsic::ceil: d = std::ceil(d); break;
                        case Intrinsic::trunc: d = std::trunc(d); break;
                        default: d = std::sqrt(d);
                    }
                    return done(dToVal(d));
                }
                if (isRealV(v)) {
                    z3::expr fl = z3::to_real(z3::expr(Z, Z3_mk_real2int(Z, v.e)));
                    z3::expr ce = -z3::to_real(z3::expr(Z, Z3_mk_real2int(Z, -v.e)));
                    switch (ii->getIntrinsicID()) {
                        case Intrinsic::floor: return done(Val::sym(fl));
                        case Intrinsic::ceil: return done(Val::sym(ce));
                        case Intrinsic::trunc: return done(Val::sym(z3::ite(v.e >= 0, fl, ce)));
                        default: return done(realSqrt(v.e));
                    }
                }
                z3::expr f = toFP(v, 64);
                Z3_ast rm = ii->getIntrinsicID() == Intrinsic::floor ? Z3_mk_fpa_rtn(Z) : ii->getIntrinsicID() == Intrinsic::ceil ? Z3_mk_fpa_rtp(Z) : Z3_mk_fpa_rtz(Z);
                if (ii->getIntrinsicID() == Intrinsic::sqrt)
                    return done(Val::sym(z3::expr(Z, Z3_mk_fpa_sqrt(Z, Z3_mk_fpa_rne(Z), f))));
                return done(Val::sym(z3::expr(Z, Z3_mk_fpa_round_to_integral(Z, rm, f))));
            }
            case Intrinsic::fmuladd: {
                Val a = get(ii->getArgOperand(0)), b = get(ii->getArgOperand(1)), c = get(ii->getArgOperand(2));
                return done(fbin(Instruction::FAdd, fbin(Instruction::FMul, a, b, 64), c, 64));
            }
            case Intrinsic::abs: {
                Val v = get(ii->getArgOperand(0));
                unsigned w = ii->getType()->getIntegerBitWidth();
                if (v.isC())
                    return done(Val::conc(v.c.abs()));
                z3::expr e = toBV(v, w);
                return done(simp(z3::ite(e < Z.bv_val(0, w), -e, e)));
            }
            case Intrinsic::umax: case Intrinsic::umin: case Intrinsic::smax: case Intrinsic::smin: {
                Val a = get(ii->getArgOperand(0)), b = get(ii->getArgOperand(1));
                unsigned w = ii->getType()->getIntegerBitWidth();
                CmpInst::Predicate p = ii->getIntrinsicID() == Intrinsic::umax ? CmpInst::ICMP_UGT : ii->getIntrinsicID() == Intrinsic::umin ? CmpInst::ICMP_ULT : ii->getIntrinsicID() == Intrinsic::smax ? CmpInst::ICMP_SGT : CmpInst::ICMP_SLT;
                Val c = icmp(p, a, b, w);
                if (c.isC())
                    return done(c.c.getBoolValue() ? a : b);
                return done(simp(z3::ite(toBool(c), toBV(a, w), toBV(b, w))));
            }
            case Intrinsic::uadd_with_overflow: case Intrinsic::umul_with_overflow:
            case Intrinsic::sadd_with_overflow: case Intrinsic::smul_with_overflow:
            case Intrinsic::usub_with_overflow: case Intrinsic::ssub_with_overflow: {
                Val a = get(ii->getArgOperand(0)), b = get(ii->getArgOperand(1));
                if (!a.isC() || !b.isC())
                    throw PathEnd{"inconclusive", "symbolic overflow intrinsic"};
                bool ov = false;
                APInt r;
                switch (ii->getIntrinsicID()) {
                    case Intrinsic::uadd_with_overflow: r = a.c.uadd_ov(b.c, ov); break;
                    case Intrinsic::umul_with_overflow: r = a.c.umul_ov(b.c, ov); break;
                    case Intrinsic::sadd_with_overflow: r = a.c.sadd_ov(b.c, ov); break;
                    case Intrinsic::smul_with_overflow: r = a.c.smul_ov(b.c, ov); break;
                    case Intrinsic::usub_with_overflow: r = a.c.usub_ov(b.c, ov); break;
                    default: r = a.c.ssub_ov(b.c, ov);
                }
                Val v;
                v.k = Val::AGG;
                v.agg.push_back(Val::conc(r));
                v.agg.push_back(Val::conc(1, ov));
                return done(v);
            }
            case Intrinsic::ctlz: case Intrinsic::cttz: case Intrinsic::ctpop: {
                Val a = get(ii->getArgOperand(0));
                if (!a.isC())
                    throw PathEnd{"inconclusive", "symbolic bit count"};
                unsigned w = a.c.getBitWidth();
                unsigned r = ii->getIntrinsicID() == Intrinsic::ctlz ? a.c.countLeadingZeros() : ii->getIntrinsicID() == Intrinsic::cttz ? a.c.countTrailingZeros() : a.c.countPopulation();
                return done(Val::conc(w, r));
            }
            case Intrinsic::usub_sat: {
                Val a = get(ii->getArgOperand(0)), b = get(ii->getArgOperand(1));
                if (!a.isC() || !b.isC())
                    throw PathEnd{"inconclusive", "symbolic usub.sat"};
                return done(Val::conc(a.c.usub_sat(b.c)));
            }
            case Intrinsic::fshl: {
                Val a = get(ii->getArgOperand(0)), b = get(ii->getArgOperand(1)), c = get(ii->getArgOperand(2));
                if (!a.isC() || !b.isC() || !c.isC())
                    throw PathEnd{"inconclusive", "symbolic fshl"};
                unsigned w = a.c.getBitWidth();
                unsigned s = c.c.urem(APInt(w, w)).getZExtValue();
                APInt r = s == 0 ? a.c : (a.c.shl(s) | b.c.lshr(w - s));
                return done(Val::conc(r));
            }
            default:
                return false;
        }
    }
    void memCopy(uint64_t d, uint64_t s, uint64_t n)
    {
        if (!n)
            return;
        ObjP so = findObj(s, n, false);
        MemObj scopy; // handle overlap by snapshotting source range
        uint64_t soff = s - so->base;
        std::vector<uint8_t> buf(so->data.begin() + soff, so->data.begin() + soff + n);
        std::vector<std::pair<uint64_t, z3::expr>> sy, ic;
        std::vector<std::pair<uint64_t, MemObj::Cell>> cl;
        {
            bool partial = false;
            for (auto &c : so->cells)
                if (c.first < soff + n && c.first + c.second.n > soff) {
                    if (c.first >= soff && c.first + c.second.n <= soff + n)
                        cl.emplace_back(c.first - soff, c.second);
                    else
                        partial = true;
                }
            if (partial) {
                so = findObj(s, n, true);
                so->explode(soff, n);
                cl.clear();
                for (auto &c : so->cells)
                    if (c.first >= soff && c.first + c.second.n <= soff + n)
                        cl.emplace_back(c.first - soff, c.second);
            }
        }
        for (auto it = so->symb.lower_bound(soff); it != so->symb.end() && it->first < soff + n; ++it)
            sy.emplace_back(it->first - soff, it->second);
        for (auto &kv : so->intcell)
            if (kv.first >= soff && kv.first + 8 <= soff + n)
                ic.emplace_back(kv.first - soff, kv.second);
            else if (kv.first < soff + n && kv.first + 8 > soff)
                throw PathEnd{"inconclusive", "memcpy splits Int cell"};
        ObjP dobj = findObj(d, n, true);
        uint64_t doff = d - dobj->base;
        clearSym(*dobj, doff, n);
        memcpy(&dobj->data[doff], buf.data(), n);
        for (auto &kv : sy)
            dobj->symb.insert_or_assign(doff + kv.first, kv.second);
        for (auto &kv : cl)
            dobj->cells.insert_or_assign(doff + kv.first, kv.second);
        for (auto &kv : ic)
            dobj->intcell.insert_or_assign(doff + kv.first, kv.second);
    }

    // run a function to completion on the current path
    Val runFunction(Function *fn, std::vector<Val> args)
    {
        size_t depth = stack.size();
        // synthetic frame to receive return value
        Val result;
        pushFrame(fn, args, nullptr);
        while (stack.size() > depth) {
            if (stack.size() == depth + 1 && isa<ReturnInst>(&*stack.back().pc)) {
                auto *ri = cast<ReturnInst>(&*stack.back().pc);
                if (ri->getReturnValue())
                    result = get(ri->getReturnValue());
                popFrame();
                break;
            }
            Instruction *cur = &*stack.back().pc;
            try {
                step();
            } catch (z3::exception &ex) {
                std::string is;
                raw_string_ostream os(is);
                cur->print(os);
                throw PathEnd{"inconclusive", std::string("z3: ") + ex.msg() + " at" + is.substr(0, 120) + " in " + demangle(cur->getFunction()->getName().str()).substr(0, 80)};
            }
        }
        return result;
    }

    void runCtors()
    {
        GlobalVariable *gc = M->getGlobalVariable("llvm.global_ctors");
        if (!gc)
            return;
        std::vector<std::pair<uint64_t, Function *>> cs;
        auto *arr = cast<ConstantArray>(gc->getInitializer());
        for (auto &op : arr->operands()) {
            auto *s = cast<ConstantStruct>(op.get());
            uint64_t prio = cast<ConstantInt>(s->getOperand(0))->getZExtValue();
            if (auto *f = dyn_cast<Function>(s->getOperand(1)->stripPointerCasts()))
                cs.emplace_back(prio, f);
        }
        std::stable_sort(cs.begin(), cs.end(), [](auto &a, auto &b) { return a.first < b.first; });
        for (auto &c : cs)
            runFunction(c.second, {});
    }
};

#include "natives_core.inc"
#include "natives_gmp.inc"
#include "natives_stream.inc"

static void registerNatives(Engine &E)
{
    LLVMContext &C = E.M->getContext();
    // declarations whose addresses are needed for stand-in vtables
    for (const char *n : {"_ZNSt13runtime_errorD1Ev", "_ZNSt13runtime_errorD0Ev", "_ZNKSt13runtime_error4whatEv"})
        E.M->getOrInsertFunction(n, Type::getInt8PtrTy(C), Type::getInt8PtrTy(C));
    registerCore(E);
    registerGMP(E);
    registerStreams(E);
}

static void initExternGlobals(Engine &E)
{
    struct { const char *name; uint64_t vboff; int n; } vtts[] = {
        {"_ZTTNSt7__cxx1119basic_ostringstreamIcSt11char_traitsIcESaIcEEE", 112, 4},
        {"_ZTTNSt7__cxx1119basic_istringstreamIcSt11char_traitsIcESaIcEEE", 120, 4},
        {"_ZTTNSt7__cxx1118basic_stringstreamIcSt11char_traitsIcESaIcEEE", 128, 10},
    };
    for (auto &v : vtts) {
        GlobalVariable *g = E.M->getGlobalVariable(v.name);
        if (!g)
            continue;
        uint64_t a = E.addrOf(g);
        uint64_t vt = E.alloc(64, 0, std::string("fake vtable for ") + v.name);
        E.wr64(vt, v.vboff);
        for (int i = 0; i < v.n; i++)
            E.wr64(a + 8 * i, vt + 24);
    }
    E.fakeVT = E.alloc(64, 0, "fake ostringstream vtable");
    E.wr64(E.fakeVT, 112);
    E.fakeVTss = E.alloc(64, 0, "fake stringstream vtable");
    E.wr64(E.fakeVTss, 128);
    E.errnoAddr = E.alloc(4, 0, "errno");
    if (GlobalVariable *g = E.M->getGlobalVariable("__libc_single_threaded")) {
        uint8_t one = 1;
        E.writeBytes(E.addrOf(g), &one, 1);
    }
    // typeinfo stand-ins for libstdc++ exception classes
    struct { const char *ti, *nm, *base; } tis[] = {
        {"_ZTISt9exception", "St9exception", nullptr},
        {"_ZTISt13runtime_error", "St13runtime_error", "_ZTISt9exception"},
        {"_ZTISt11logic_error", "St11logic_error", "_ZTISt9exception"},
        {"_ZTISt14overflow_error", "St14overflow_error", "_ZTISt13runtime_error"},
        {"_ZTISt16invalid_argument", "St16invalid_argument", "_ZTISt11logic_error"},
        {"_ZTISt12length_error", "St12length_error", "_ZTISt11logic_error"},
        {"_ZTISt12out_of_range", "St12out_of_range", "_ZTISt11logic_error"},
        {"_ZTISt12domain_error", "St12domain_error", "_ZTISt11logic_error"},
        {"_ZTISt8bad_cast", "St8bad_cast", "_ZTISt9exception"},
        {"_ZTISt9bad_alloc", "St9bad_alloc", "_ZTISt9exception"},
        {"_ZTISt17bad_function_call", "St17bad_function_call", "_ZTISt9exception"},
    };
    GlobalVariable *si = E.M->getGlobalVariable("_ZTVN10__cxxabiv120__si_class_type_infoE");
    GlobalVariable *ci = E.M->getGlobalVariable("_ZTVN10__cxxabiv117__class_type_infoE");
    uint64_t siV = si ? E.addrOf(si) + 16 : 0, ciV = ci ? E.addrOf(ci) + 16 : 0;
    for (auto &t : tis) {
        GlobalVariable *g = E.M->getGlobalVariable(t.ti);
        uint64_t a = g ? E.addrOf(g) : E.alloc(24, 0, t.ti);
        E.stdTI[t.ti] = a;
    }
    for (auto &t : tis) {
        uint64_t a = E.stdTI[t.ti];
        uint64_t nm = E.alloc(strlen(t.nm) + 1, 0, "typeinfo name");
        E.writeBytes(nm, t.nm, strlen(t.nm) + 1);
        E.wr64(a, t.base ? siV : ciV);
        E.wr64(a + 8, nm);
        if (t.base)
            E.wr64(a + 16, E.stdTI[t.base]);
    }
    // vtable stand-in shared by the std exception objects the natives create
    {
        uint64_t vt = E.alloc(40, 0, "vtable stand-in std::runtime_error");
        E.wr64(vt, 0);
        E.wr64(vt + 8, E.stdTI["_ZTISt13runtime_error"]);
        E.wr64(vt + 16, E.gaddr[E.M->getFunction("_ZNSt13runtime_errorD1Ev")]);
        E.wr64(vt + 24, E.gaddr[E.M->getFunction("_ZNSt13runtime_errorD0Ev")]);
        E.wr64(vt + 32, E.gaddr[E.M->getFunction("_ZNKSt13runtime_error4whatEv")]);
        E.stdVT["_ZTVSt13runtime_error"] = vt + 16;
        if (GlobalVariable *g = E.M->getGlobalVariable("_ZTVSt13runtime_error")) {
            uint64_t a = E.addrOf(g);
            for (int i = 0; i < 5; i++)
                E.wr64(a + 8 * i, E.rd64(vt + 8 * i));
        }
    }
}

//------------------------------------------------------------------ JSON helpers
static std::string jstr(const std::string &s)
{
    std::string r = "\"";
    for (unsigned char c : s) {
        if (c == '"' || c == '\\') {
            r += '\\';
            r += (char)c;
        } else if (c == '\n')
            r += "\\n";
        else if (c < 0x20 || c >= 0x7f) {
            char b[8];
            snprintf(b, sizeof b, "\\u%04x", c);
            r += b;
        } else
            r += (char)c;
    }
    return r + "\"";
}

//------------------------------------------------------------------ prefix (de)serialisation
static std::string encPrefix(const std::vector<Engine::Dec> &d)
{
    std::string s;
    char buf[32];
    for (auto &x : d) {
        if (!s.empty())
            s += ',';
        s += x.b ? '1' : '0';
        if (x.forced)
            s += 'f';
        snprintf(buf, sizeof buf, "@%x", x.site);
        s += buf;
        if (!x.val.empty()) {
            s += '=';
            s += x.val;
        }
    }
    return s;
}
static std::vector<Engine::Dec> decPrefix(const std::string &s)
{
    std::vector<Engine::Dec> d;
    size_t i = 0;
    while (i < s.size()) {
        size_t j = s.find(',', i);
        if (j == std::string::npos)
            j = s.size();
        std::string t = s.substr(i, j - i);
        Engine::Dec x;
        x.b = t[0] == '1';
        size_t k = 1;
        if (k < t.size() && t[k] == 'f') {
            x.forced = true;
            k++;
        }
        if (k < t.size() && t[k] == '@') {
            size_t e = t.find('=', k);
            x.site = (uint32_t)strtoul(t.substr(k + 1, e == std::string::npos ? std::string::npos : e - k - 1).c_str(), nullptr, 16);
            k = e == std::string::npos ? t.size() : e;
        }
        if (k < t.size() && t[k] == '=')
            x.val = t.substr(k + 1);
        d.push_back(x);
        i = j + 1;
    }
    return d;
}

struct RunCfg {
    Function *H = nullptr;
    uint64_t sG = 0, sS = 0, sH = 0;
};

// conservative reachability scan (LeakSanitizer style): heap objects allocated after the snapshot, not freed and not reachable
// from globals or other reachable heap objects are leaks
static std::string leakCheck(Engine &E, uint64_t heapStart)
{
    std::set<uint64_t> reached;
    std::vector<uint64_t> todo;
    auto scan = [&](const MemObj &o) {
        for (uint64_t off = 0; off + 8 <= o.size; off += 8) {
            uint64_t v;
            memcpy(&v, &o.data[off], 8);
            if (v < heapStart)
                continue;
            auto it = E.objs.upper_bound(v);
            if (it == E.objs.begin())
                continue;
            --it;
            MemObj &t = *it->second;
            if (!t.heap || t.freed || v > t.base + t.size)
                continue;
            if (reached.insert(t.base).second)
                todo.push_back(t.base);
        }
    };
    for (auto &kv : E.objs)
        if (!kv.second->heap)
            scan(*kv.second);
        else if (kv.second->base < heapStart && !kv.second->freed)
            scan(*kv.second);
    while (!todo.empty()) {
        uint64_t b = todo.back();
        todo.pop_back();
        scan(*E.objs[b]);
    }
    unsigned n = 0;
    uint64_t bytes = 0;
    std::string first;
    for (auto &kv : E.objs) {
        MemObj &o = *kv.second;
        if (o.heap && !o.freed && o.base >= heapStart && !reached.count(o.base)) {
            n++;
            bytes += o.size;
            if (first.empty())
                first = o.name + "(" + std::to_string(o.size) + " bytes)";
        }
    }
    if (!n)
        return "";
    return std::to_string(n) + " heap object(s), " + std::to_string(bytes) + " bytes leaked, first: " + first;
}

// run one path; returns a JSON object describing it; new work items are appended to E.work
static std::string runPath(Engine &E, const RunCfg &rc, const std::vector<Engine::Dec> &prefix, bool wantModel, bool checked = false)
{
    E.prefix = prefix;
    E.checkedReplay = checked;
    E.decisions.clear();
    E.pc.clear();
    E.inputs.clear();
    E.observations.clear();
    E.stack.clear();
    E.objs.clear();
    E.mdl.reset();
    E.subF.reset();
    E.subT.reset();
    E.resetPath();
    E.ufs.clear();
    E.work.clear();
    delete g_ctx;
    g_ctx = new z3::context;
    E.objs = E.snapshot;
    E.nextGlobal = rc.sG;
    E.nextStack = rc.sS;
    E.nextHeap = rc.sH;
    E.stack.clear();
    E.pathInstr = 0;
    E.unwinding = false;
    E.mdl.reset();
    E.subF.reset();
    E.subT.reset();
    E.resetPath();
    g_realMode = false;
    g_bvInts = false;
    E.checkLeaks = E.params.count("leak") && E.params["leak"] != 0; // C40: leak monitor at harness exit
    z3::solver S(Z);
    {
        z3::params pr(Z);
        pr.set("timeout", (unsigned)E.fastTimeout);
        S.set(pr);
    }
    E.S = &S;
    uint64_t q0 = E.st.queries;
    double s0 = E.st.solver_s;
    PathEnd end{"ok", ""};
    try {
        E.runFunction(rc.H, {});
        if (E.checkLeaks) {
            std::string l = leakCheck(E, rc.sH);
            if (!l.empty())
                E.violation("memory leak: " + l);
        }
    } catch (PathEnd &p) {
        end = p;
        if (end.kind == "inconclusive" && getenv("SYMX_WHERE")) {
            end.msg += " @";
            for (size_t i = E.stack.size(); i-- > 0 && i + 6 > E.stack.size();)
                end.msg += " <- " + demangle(E.stack[i].f->getName().str()).substr(0, 60);
            try {
                bool ok;
                for (auto &kv : E.inputModel(ok))
                    end.msg += " " + kv.first + "=" + kv.second;
            } catch (...) {
            }
        }
    } catch (z3::exception &ex) {
        end = PathEnd{"inconclusive", std::string("z3: ") + ex.msg()};
    } catch (std::exception &ex) {
        end = PathEnd{"inconclusive", std::string("engine exception: ") + ex.what()};
    }
    try {
        if (end.kind == "violation") {
            E.violation(end.msg);
            end.kind = "ok";
        } else if (end.kind == "throw") {
            E.violation("uncaught exception " + end.msg);
            end.kind = "ok";
        }
    } catch (...) {
    }
    E.st.paths++;
    std::ostringstream js;
    std::string kind = end.kind;
    if (!E.violations.empty())
        kind = "violation";
    else if (kind == "ok" && !E.knownHit.empty())
        kind = "known";
    js << "{\"kind\":" << jstr(kind) << ",\"msg\":" << jstr(end.msg) << ",\"decisions\":" << E.decisions.size() << ",\"instrs\":" << E.pathInstr
       << ",\"queries\":" << (E.st.queries - q0) << ",\"solver_s\":" << (E.st.solver_s - s0) << ",\"prefix\":" << jstr(encPrefix(E.decisions)) << ",\"diverged\":" << ((end.kind == "inconclusive" && end.msg.find("replay divergence") != std::string::npos && !checked) ? "true" : "false");
    js << ",\"violations\":[";
    for (size_t i = 0; i < E.violations.size(); i++) {
        auto &v = E.violations[i];
        js << (i ? "," : "") << "{\"msg\":" << jstr(v.msg) << ",\"model_ok\":" << (v.modelOk ? "true" : "false") << ",\"model\":{";
        for (size_t k = 0; k < v.model.size(); k++)
            js << (k ? "," : "") << jstr(v.model[k].first) << ":" << jstr(v.model[k].second);
        js << "},\"stack\":[";
        for (size_t k = 0; k < v.stack.size() && k < 12; k++)
            js << (k ? "," : "") << jstr(v.stack[v.stack.size() - 1 - k]);
        js << "]}";
    }
    js << "],\"known\":[";
    for (size_t i = 0; i < E.knownHit.size(); i++)
        js << (i ? "," : "") << jstr(E.knownHit[i]);
    js << "],\"notes\":[";
    for (size_t i = 0; i < E.notes.size(); i++)
        js << (i ? "," : "") << jstr(E.notes[i]);
    js << "]";
    if (wantModel && (kind == "ok" || kind == "known")) {
        bool ok = false;
        std::vector<std::pair<std::string, std::string>> m;
        try {
            m = E.inputModel(ok);
        } catch (...) {
        }
        if (ok) {
            js << ",\"model\":{";
            for (size_t k = 0; k < m.size(); k++)
                js << (k ? "," : "") << jstr(m[k].first) << ":" << jstr(m[k].second);
            js << "},\"obs\":[";
            for (size_t k = 0; k < E.observations.size(); k++) {
                std::string sv = "?";
                try {
                    z3::expr v = E.mdl->eval(E.observations[k].e, true);
                    if (v.is_numeral()) {
                        mpz_class c(v.get_decimal_string(0));
                        if (v.get_sort().is_bv() && v.get_sort().bv_size() == 64 && c >= mpz_class("9223372036854775808"))
                            c -= mpz_class("18446744073709551616");
                        sv = c.get_str();
                    }
                } catch (...) {
                }
                js << (k ? "," : "") << "[" << jstr(E.observations[k].tag) << "," << jstr(sv) << "]";
            }
            js << "],\"pc_size\":" << E.pc.size();
        }
    }
    js << "}";
    // release z3 objects tied to the solver before it goes out of scope
    E.mdl.reset();
    E.inputs.clear();
    E.observations.clear();
    E.pc.clear();
    E.resetPath();
    E.ufs.clear();
    E.stack.clear();
    E.objs.clear();
    E.S = nullptr;
    return js.str();
}

static std::string statsJson(Engine &E)
{
    std::ostringstream js;
    js << "{\"instrs\":" << E.st.instrs << ",\"paths\":" << E.st.paths << ",\"queries\":" << E.st.queries << ",\"forks\":" << E.st.forks
       << ",\"slow\":" << E.st.slowQueries << ",\"asserts\":" << E.st.asserts << ",\"simp_proved\":" << E.st.simpProved << ",\"sat\":" << E.st.sat << ",\"unsat\":" << E.st.unsat
       << ",\"solver_s\":" << E.st.solver_s << ",\"replay_fallbacks\":" << E.replayFallbacks << ",\"funcs\":[";
    bool first = true;
    for (auto &f : E.st.funcs) {
        js << (first ? "" : ",") << jstr(f);
        first = false;
    }
    js << "],\"hooks\":[";
    first = true;
    for (auto &f : E.hooksUsed) {
        js << (first ? "" : ",") << jstr(f);
        first = false;
    }
    js << "],\"missing\":[";
    first = true;
    for (auto &f : E.missing) {
        js << (first ? "" : ",") << jstr(f);
        first = false;
    }
    js << "]}";
    return js.str();
}

static bool readLine(int fd, std::string &buf, std::string &line)
{
    for (;;) {
        size_t nl = buf.find('\n');
        if (nl != std::string::npos) {
            line = buf.substr(0, nl);
            buf.erase(0, nl + 1);
            return true;
        }
        char tmp[65536];
        ssize_t n = read(fd, tmp, sizeof tmp);
        if (n <= 0)
            return false;
        buf.append(tmp, (size_t)n);
    }
}
static void writeAll(int fd, const std::string &s)
{
    size_t off = 0;
    while (off < s.size()) {
        ssize_t n = write(fd, s.data() + off, s.size() - off);
        if (n <= 0)
            return;
        off += (size_t)n;
    }
}

static void workerLoop(Engine &E, const RunCfg &rc, int in, int out)
{
    std::string buf, line;
    while (readLine(in, buf, line)) {
        if (line == "Q")
            break;
        // "P <wantModel> <prefix>"
        bool wm = line.size() > 2 && line[2] == '1';
        bool checked = line.size() > 2 && line[2] == 'C';
        std::string pfx = line.size() > 4 ? line.substr(4) : "";
        E.work.clear();
        std::string res = runPath(E, rc, decPrefix(pfx), wm, checked);
        if (res.find("\"diverged\":true") != std::string::npos) {
            // replay went astray: run the same prefix again with solver-validated replay (falls back to fresh exploration)
            E.work.clear();
            res = runPath(E, rc, decPrefix(pfx), wm, true);
        }
        std::string msg;
        for (auto &w : E.work)
            msg += "F " + encPrefix(w) + "\n";
        msg += "R " + res + "\n";
        writeAll(out, msg);
    }
    writeAll(out, "S " + statsJson(E) + "\n");
}

int main(int argc, char **argv)
{
    std::string modPath, entry, outPath;
    std::vector<std::string> links;
    int jobs = 1;
    std::string startPrefix;
    uint64_t maxPaths = 1000000, sampleModels = 8;
    std::string stopOn; // stop the exploration as soon as a path result contains this text (used by the vacuity-witness twin)
    bool stopNow = false;
    double wallS = 1e9;
    Engine E;
    for (int i = 1; i < argc; i++) {
        std::string a = argv[i];
        auto next = [&]() { return std::string(i + 1 < argc ? argv[++i] : ""); };
        if (a == "--module") modPath = next();
        else if (a == "--link") links.push_back(next());
        else if (a == "--entry") entry = next();
        else if (a == "--out") outPath = next();
        else if (a == "--jobs") jobs = atoi(next().c_str());
        else if (a == "--max-paths") maxPaths = strtoull(next().c_str(), nullptr, 10);
        else if (a == "--wall-s") wallS = atof(next().c_str());
        else if (a == "--instr-budget") E.instrBudget = strtoull(next().c_str(), nullptr, 10);
        else if (a == "--fast-ms") E.fastTimeout = strtoull(next().c_str(), nullptr, 10);
        else if (a == "--slow-ms") E.slowTimeout = strtoull(next().c_str(), nullptr, 10);
        else if (a == "--conc-cap") E.concCap = strtoull(next().c_str(), nullptr, 10);
        else if (a == "--alloc-cap") E.allocCap = strtoull(next().c_str(), nullptr, 10);
        else if (a == "--sample-models") sampleModels = strtoull(next().c_str(), nullptr, 10);
        else if (a == "--trace") E.trace = true;
        else if (a == "--prefix") startPrefix = next();
        else if (a == "--stop-on") stopOn = next();
        else if (a == "--known") {
            std::string k = next();
            size_t p = 0;
            while (p <= k.size()) {
                size_t q = k.find(',', p);
                if (q == std::string::npos) q = k.size();
                if (q > p) E.knownKeys.insert(k.substr(p, q - p));
                p = q + 1;
            }
        } else if (a == "--param") {
            std::string k = next();
            size_t eq = k.find('=');
            if (eq != std::string::npos) E.params[k.substr(0, eq)] = strtoll(k.c_str() + eq + 1, nullptr, 10);
        } else {
            std::cerr << "symx: unknown option " << a << "\n";
            return 2;
        }
    }
    if (modPath.empty() || entry.empty()) {
        std::cerr << "usage: symx --module lib.bc [--link x.bc]... --entry harness_fn [--jobs N] [--out result.json] [--known k1,k2] [--param k=v]\n";
        return 2;
    }
    LLVMContext ctx;
    SMDiagnostic err;
    auto t0 = std::chrono::steady_clock::now();
    auto M = parseIRFile(modPath, err, ctx);
    if (!M) {
        err.print("symx", errs());
        return 2;
    }
    for (auto &l : links) {
        auto M2 = parseIRFile(l, err, ctx);
        if (!M2) {
            err.print("symx", errs());
            return 2;
        }
        if (Linker::linkModules(*M, std::move(M2))) {
            std::cerr << "symx: link failed for " << l << "\n";
            return 2;
        }
    }
    DL = &M->getDataLayout();
    E.M = M.get();
    registerNatives(E);
    {
    z3::solver S0(Z);
    E.S = &S0;
    try {
        E.initGlobals();
        initExternGlobals(E);
        bool tr = E.trace;
        E.trace = false;
        E.runCtors();
        E.trace = tr;
    } catch (PathEnd &p) {
        std::cerr << "symx: init failed: " << p.kind << " " << p.msg << "\n";
        for (auto &f : E.stack)
            std::cerr << "  in " << demangle(f.f->getName().str()) << "\n";
        return 2;
    }
    E.S = nullptr;
    }
    auto t1 = std::chrono::steady_clock::now();
    E.snapshot = E.objs;
    RunCfg rc;
    rc.sG = E.nextGlobal;
    rc.sS = E.nextStack;
    rc.sH = E.nextHeap;
    rc.H = M->getFunction(entry);
    if (!rc.H) {
        std::cerr << "symx: no harness " << entry << "\n";
        return 2;
    }
    uint64_t initInstr = E.st.instrs;
    E.st = Stats();

    // ---- master state
    std::deque<std::string> queue;
    queue.push_back(startPrefix);
    std::vector<std::string> results; // path JSON objects
    std::vector<std::string> workerStats;
    uint64_t dispatched = 0, done = 0;
    bool truncated = false;
    std::string truncReason;
    auto wallLeft = [&]() { return wallS - std::chrono::duration<double>(std::chrono::steady_clock::now() - t1).count(); };

    if (jobs <= 1) {
        while (!queue.empty()) {
            if (done >= maxPaths || wallLeft() < 0) {
                truncated = true;
                truncReason = done >= maxPaths ? "path budget" : "wall budget";
                break;
            }
            std::string p = queue.back();
            queue.pop_back();
            E.work.clear();
            std::string rs = runPath(E, rc, decPrefix(p), dispatched < sampleModels || dispatched % 16 == 0);
            if (rs.find("\"diverged\":true") != std::string::npos) {
                E.work.clear();
                rs = runPath(E, rc, decPrefix(p), false, true);
            }
            results.push_back(rs);
            dispatched++;
            done++;
            if (!stopOn.empty() && rs.find(stopOn) != std::string::npos) {
                truncated = true;
                truncReason = "stopped on match";
                break;
            }
            for (auto &w : E.work)
                queue.push_back(encPrefix(w));
        }
        workerStats.push_back(statsJson(E));
    } else {
        signal(SIGPIPE, SIG_IGN);
        struct W { pid_t pid; int in, out; bool busy = false, dead = false; std::string buf, cur; };
        std::vector<W> ws;
        for (int i = 0; i < jobs; i++) {
            int p2c[2], c2p[2];
            if (pipe(p2c) || pipe(c2p)) {
                perror("pipe");
                return 2;
            }
            pid_t pid = fork();
            if (pid == 0) {
                close(p2c[1]);
                close(c2p[0]);
                for (auto &w : ws) {
                    close(w.in);
                    close(w.out);
                }
                workerLoop(E, rc, p2c[0], c2p[1]);
                _exit(0);
            }
            close(p2c[0]);
            close(c2p[1]);
            W w;
            w.pid = pid;
            w.in = c2p[0];
            w.out = p2c[1];
            ws.push_back(w);
        }
        auto nbusy = [&]() { int n = 0; for (auto &w : ws) n += w.busy; return n; };
        for (;;) {
            if (!truncated && (dispatched >= maxPaths || wallLeft() < 0) && !queue.empty()) {
                truncated = true;
                truncReason = dispatched >= maxPaths ? "path budget" : "wall budget";
            }
            if (!truncated)
                for (auto &w : ws)
                    if (!w.busy && !w.dead && !queue.empty()) {
                        std::string p = queue.back();
                        queue.pop_back();
                        bool wm = dispatched < sampleModels || dispatched % 16 == 0;
                        writeAll(w.out, std::string("P ") + (wm ? "1" : "0") + " " + p + "\n");
                        w.busy = true;
                        w.cur = p;
                        dispatched++;
                    }
            if (nbusy() == 0)
                break;
            if (stopNow || wallLeft() < -20) {
                // hard stop: paths still running well past the wall budget are abandoned (never counted as success)
                truncated = true;
                truncReason = stopNow ? "stopped on match" : "wall budget (running paths abandoned)";
                for (auto &w : ws)
                    if (w.busy && !w.dead) {
                        kill(w.pid, SIGKILL);
                        w.dead = true;
                        w.busy = false;
                        queue.push_back("abandoned");
                    }
                break;
            }
            std::vector<pollfd> fds;
            std::vector<size_t> idx;
            for (size_t i = 0; i < ws.size(); i++)
                if (ws[i].busy) {
                    fds.push_back(pollfd{ws[i].in, POLLIN, 0});
                    idx.push_back(i);
                }
            int pr = poll(fds.data(), fds.size(), 1000);
            if (pr <= 0)
                continue;
            for (size_t k = 0; k < fds.size(); k++) {
                if (!(fds[k].revents & (POLLIN | POLLHUP)))
                    continue;
                W &w = ws[idx[k]];
                char tmp[65536];
                ssize_t n = read(w.in, tmp, sizeof tmp);
                if (n <= 0) {
                    // worker died (engine crash): the path it was running is inconclusive
                    w.dead = true;
                    w.busy = false;
                    results.push_back("{\"kind\":\"inconclusive\",\"msg\":\"engine worker crashed\",\"decisions\":0,\"instrs\":0,\"queries\":0,\"solver_s\":0,\"prefix\":" + jstr(w.cur) + ",\"violations\":[],\"known\":[],\"notes\":[]}");
                    done++;
                    continue;
                }
                w.buf.append(tmp, (size_t)n);
                size_t nl;
                while ((nl = w.buf.find('\n')) != std::string::npos) {
                    std::string line = w.buf.substr(0, nl);
                    w.buf.erase(0, nl + 1);
                    if (line.size() >= 2 && line[0] == 'F')
                        queue.push_back(line.substr(2));
                    else if (line.size() >= 2 && line[0] == 'R') {
                        results.push_back(line.substr(2));
                        w.busy = false;
                        done++;
                        if (!stopOn.empty() && line.find(stopOn) != std::string::npos)
                            stopNow = true;
                        if (done % 500 == 0)
                            std::cerr << "symx: paths " << done << " queue " << queue.size() << "\n";
                    }
                }
            }
        }
        for (auto &w : ws) {
            if (w.dead)
                continue;
            writeAll(w.out, "Q\n");
            std::string line;
            while (readLine(w.in, w.buf, line))
                if (line.size() >= 2 && line[0] == 'S') {
                    workerStats.push_back(line.substr(2));
                    break;
                }
        }
        for (auto &w : ws) {
            int stt;
            waitpid(w.pid, &stt, 0);
        }
    }
    auto t3 = std::chrono::steady_clock::now();
    std::ostringstream js;
    js << "{\"entry\":" << jstr(entry) << ",\"jobs\":" << jobs << ",\"load_s\":" << std::chrono::duration<double>(t1 - t0).count() << ",\"init_instrs\":" << initInstr
       << ",\"wall_s\":" << std::chrono::duration<double>(t3 - t1).count() << ",\"truncated\":" << (truncated ? "true" : "false") << ",\"trunc_reason\":" << jstr(truncReason)
       << ",\"unexplored\":" << queue.size() << ",\"worker_stats\":[";
    for (size_t i = 0; i < workerStats.size(); i++)
        js << (i ? "," : "") << workerStats[i];
    js << "],\"paths\":[";
    for (size_t i = 0; i < results.size(); i++)
        js << (i ? ",\n" : "\n") << results[i];
    js << "]}\n";
    if (outPath.empty())
        std::cout << js.str();
    else {
        FILE *f = fopen(outPath.c_str(), "w");
        if (!f) {
            perror("symx: out");
            return 2;
        }
        fputs(js.str().c_str(), f);
        fclose(f);
    }
    return 0;
}
