// libstdc++ / libc models compiled to IR and linked into the module under analysis
#include <string>
#include <cstddef>
#include <cmath>
#include <utility>

// real libstdc++ code for std::string members (explicit instantiation definition)
template class std::__cxx11::basic_string<char>;

namespace {
struct Node {
    int color; // 0 red, 1 black
    Node *parent, *left, *right;
};
}
extern "C" {
void m_rb_insert(bool insert_left, Node *x, Node *p, Node &header) __asm__("_ZSt29_Rb_tree_insert_and_rebalancebPSt18_Rb_tree_node_baseS0_RS_");
Node *m_rb_inc(Node *x) __asm__("_ZSt18_Rb_tree_incrementPSt18_Rb_tree_node_base");
Node *m_rb_inc_c(Node *x) __asm__("_ZSt18_Rb_tree_incrementPKSt18_Rb_tree_node_base");
Node *m_rb_dec(Node *x) __asm__("_ZSt18_Rb_tree_decrementPSt18_Rb_tree_node_base");
Node *m_rb_dec_c(Node *x) __asm__("_ZSt18_Rb_tree_decrementPKSt18_Rb_tree_node_base");
Node *m_rb_erase(Node *z, Node &header) __asm__("_ZSt28_Rb_tree_rebalance_for_erasePSt18_Rb_tree_node_baseRS_");

// Unbalanced binary search tree with libstdc++'s header conventions: behaviourally
// equivalent to the red-black tree for every std::map/std::set observable.
void m_rb_insert(bool insert_left, Node *x, Node *p, Node &header)
{
    x->parent = p;
    x->left = x->right = nullptr;
    x->color = 0;
    if (insert_left) {
        p->left = x;
        if (p == &header) {
            header.parent = x;
            header.right = x;
        } else if (p == header.left)
            header.left = x;
    } else {
        p->right = x;
        if (p == header.right)
            header.right = x;
    }
    if (header.parent)
        header.parent->color = 1;
}
Node *m_rb_inc(Node *x)
{
    if (x->right) {
        x = x->right;
        while (x->left)
            x = x->left;
    } else {
        Node *y = x->parent;
        while (x == y->right) {
            x = y;
            y = y->parent;
        }
        if (x->right != y)
            x = y;
    }
    return x;
}
Node *m_rb_inc_c(Node *x)
{
    return m_rb_inc(x);
}
Node *m_rb_dec(Node *x)
{
    if (x->color == 0 && x->parent->parent == x)
        x = x->right;
    else if (x->left) {
        Node *y = x->left;
        while (y->right)
            y = y->right;
        x = y;
    } else {
        Node *y = x->parent;
        while (x == y->left) {
            x = y;
            y = y->parent;
        }
        x = y;
    }
    return x;
}
Node *m_rb_dec_c(Node *x)
{
    return m_rb_dec(x);
}
Node *m_rb_erase(Node *z, Node &header)
{
    Node *&root = header.parent, *&leftmost = header.left, *&rightmost = header.right;
    Node *y = z, *x = nullptr;
    if (!y->left)
        x = y->right;
    else if (!y->right)
        x = y->left;
    else {
        y = y->right;
        while (y->left)
            y = y->left;
        x = y->right;
    }
    if (y != z) {
        z->left->parent = y;
        y->left = z->left;
        if (y != z->right) {
            if (x)
                x->parent = y->parent;
            y->parent->left = x;
            y->right = z->right;
            z->right->parent = y;
        }
        if (root == z)
            root = y;
        else if (z->parent->left == z)
            z->parent->left = y;
        else
            z->parent->right = y;
        y->parent = z->parent;
        y = z;
    } else {
        if (x)
            x->parent = y->parent;
        if (root == z)
            root = x;
        else if (z->parent->left == z)
            z->parent->left = x;
        else
            z->parent->right = x;
        if (leftmost == z) {
            if (!z->right)
                leftmost = z->parent;
            else {
                Node *m = x;
                while (m->left)
                    m = m->left;
                leftmost = m;
            }
        }
        if (rightmost == z) {
            if (!z->left)
                rightmost = z->parent;
            else {
                Node *m = x;
                while (m->right)
                    m = m->right;
                rightmost = m;
            }
        }
    }
    for (Node *n = root; n; n = nullptr)
        n->color = 1;
    // every non-root node red so that the header test in decrement stays exact
    return y;
}

struct ListNode {
    ListNode *next, *prev;
};
void m_list_hook(ListNode *self, ListNode *pos) __asm__("_ZNSt8__detail15_List_node_base7_M_hookEPS0_");
void m_list_hook(ListNode *self, ListNode *pos)
{
    self->next = pos;
    self->prev = pos->prev;
    pos->prev->next = self;
    pos->prev = self;
}
void m_list_unhook(ListNode *self) __asm__("_ZNSt8__detail15_List_node_base9_M_unhookEv");
void m_list_unhook(ListNode *self)
{
    self->prev->next = self->next;
    self->next->prev = self->prev;
}

struct Rehash {
    float max_load;
    size_t next_resize;
};
static const unsigned long primes[] = {2, 3, 5, 7, 11, 13, 17, 19, 23, 29, 31, 37, 41, 43, 47, 53, 59, 61, 67, 71, 73, 79, 83, 89, 97, 103, 109, 113, 127, 137, 139, 149, 157, 167, 179, 193, 199, 211, 227, 241, 257, 277, 293, 313, 337, 359, 383, 409, 439, 467, 503, 541, 577, 619, 661, 709, 761, 823, 887, 953, 1031, 1109, 1193, 1289, 1381, 1493, 1613, 1741, 1879, 2029, 2179, 2357, 2549, 2753, 2971, 3209, 3469, 3739, 4027, 4349, 4703, 5087, 5503, 5953, 6427, 6949, 7517, 8123, 8783, 9497, 10273, 11113, 12011, 12983, 14033, 15173, 16411, 17749, 19183, 20753, 22447, 24281, 26267, 28411, 30727, 33223, 35933, 38873, 42043, 45481, 49201, 53201, 57557, 62233, 67307, 72817, 78779, 85229, 92203, 99733, 107897};
size_t m_next_bkt(Rehash *self, size_t n) __asm__("_ZNKSt8__detail20_Prime_rehash_policy11_M_next_bktEm");
size_t m_next_bkt(Rehash *self, size_t n)
{
    static const unsigned char fast[] = {2, 2, 2, 3, 5, 5, 7, 7, 11, 11, 11, 11, 13, 13};
    if (n < sizeof(fast)) {
        if (n == 0)
            return 1;
        self->next_resize = (size_t)__builtin_floor(fast[n] * (double)self->max_load);
        return fast[n];
    }
    const unsigned long *p = primes + 6, *e = primes + sizeof(primes) / sizeof(primes[0]);
    while (p != e && *p < n)
        ++p;
    unsigned long v = p == e ? *(e - 1) : *p;
    self->next_resize = (size_t)__builtin_floor(v * (double)self->max_load);
    return v;
}
struct PairBS {
    bool first;
    size_t second;
};
PairBS m_need_rehash(Rehash *self, size_t n_bkt, size_t n_elt, size_t n_ins) __asm__("_ZNKSt8__detail20_Prime_rehash_policy14_M_need_rehashEmmm");
PairBS m_need_rehash(Rehash *self, size_t n_bkt, size_t n_elt, size_t n_ins)
{
    if (n_elt + n_ins > self->next_resize) {
        double min_bkts = ((n_elt + n_ins) > (self->next_resize ? 0ul : 11ul) ? (double)(n_elt + n_ins) : (self->next_resize ? 0.0 : 11.0)) / (double)self->max_load;
        if (min_bkts >= n_bkt) {
            size_t want = (size_t)__builtin_floor(min_bkts) + 1;
            size_t g = n_bkt * 2;
            return {true, m_next_bkt(self, want > g ? want : g)};
        }
        self->next_resize = (size_t)__builtin_floor(n_bkt * (double)self->max_load);
        return {false, 0};
    }
    return {false, 0};
}
}
